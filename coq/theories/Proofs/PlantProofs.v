(* Proofs/PlantProofs.v — additivity over time, order-freedom and linearity in the interval lengths of a
   whole calculation (Model/Plant.v), from: the balance is step-wise, and the bus configuration in force
   at step t is that of the breaker row of step t (Proofs/BusProofs.v, pstart_row). *)
From Coq Require Import QArith List Bool Arith Lia Lqa Permutation.
From Feems Require Import Base.Num Model.Bus Model.ElecBalance Model.Plant Proofs.BusProofs Proofs.ElecProofs Proofs.SysResultProofs.
Import ListNotations.
Open Scope Q_scope.

Lemma nth_firstn_lt {A} (l : list A) k t d : (t < k)%nat -> nth t (firstn k l) d = nth t l d.
Proof.
  revert k t; induction l as [|a l IH]; intros [|k] [|t] H; cbn; try reflexivity; try lia.
  apply IH. lia.
Qed.
Lemma nth_skipn_plus {A} (l : list A) k t d : nth t (skipn k l) d = nth (k + t) l d.
Proof.
  revert l; induction k as [|k IH]; intros l; cbn; [reflexivity|].
  destruct l as [|a l]; [destruct t; reflexivity|]. apply IH.
Qed.

(* the configuration in force at step t is that of the breaker positions at step t *)
Lemma bus_at_row es swbs sts t x : bus_at es swbs sts t x = bus_row es swbs (row sts t) x.
Proof. unfold bus_at. rewrite pstart_row. reflexivity. Qed.

Lemma row_firstn sts k t : (t < k)%nat -> row (firstn k sts) t = row sts t.
Proof. intros H. unfold row. apply nth_firstn_lt, H. Qed.
Lemma row_skipn sts k t : row (skipn k sts) t = row sts (k + t).
Proof. unfold row. apply nth_skipn_plus. Qed.

Lemma view_take k t c ci : (t < k)%nat -> view_at t (c, take_cin k ci) = view_at t (c, ci).
Proof. intros H. unfold view_at, take_cin. cbn. rewrite !nth_firstn_lt by exact H. reflexivity. Qed.
Lemma view_drop k t c ci : view_at t (c, drop_cin k ci) = view_at (k + t) (c, ci).
Proof. unfold view_at, drop_cin. cbn. rewrite !nth_skipn_plus. reflexivity. Qed.

Lemma views_take k t plant : (t < k)%nat -> map (view_at t) (take_plant k plant) = map (view_at t) plant.
Proof.
  intros H. unfold take_plant. rewrite map_map. apply map_ext. intros [c ci]. cbn [fst snd]. apply view_take, H.
Qed.
Lemma views_drop k t plant : map (view_at t) (drop_plant k plant) = map (view_at (k + t)) plant.
Proof. unfold drop_plant. rewrite map_map. apply map_ext. intros [c ci]. cbn [fst snd]. apply view_drop. Qed.

Lemma result_of_ext cs bm1 bm2 swbs c : (forall x, bm1 x = bm2 x) -> result_of cs bm1 swbs c = result_of cs bm2 swbs c.
Proof.
  intros H. unfold result_of, load_bus, net_bus, avail_bus, swbs_of_bus. rewrite H.
  assert (E : filter (fun s => Nat.eqb (bm1 s) (bm2 (v_swb c))) swbs = filter (fun s => Nat.eqb (bm2 s) (bm2 (v_swb c))) swbs).
  { apply filter_ext. intros s. rewrite H. reflexivity. }
  rewrite E. reflexivity.
Qed.

Lemma balance_step_take k t plant es swbs sts : (t < k)%nat ->
  balance_step (take_plant k plant) es swbs (firstn k sts) t = balance_step plant es swbs sts t.
Proof.
  intros H. unfold balance_step. rewrite (views_take k t plant H). apply map_ext. intros c.
  apply result_of_ext. intros x. rewrite !bus_at_row, (row_firstn sts k t H). reflexivity.
Qed.
Lemma balance_step_drop k t plant es swbs sts :
  balance_step (drop_plant k plant) es swbs (skipn k sts) t = balance_step plant es swbs sts (k + t).
Proof.
  unfold balance_step. rewrite (views_drop k t plant). apply map_ext. intros c.
  apply result_of_ext. intros x. rewrite !bus_at_row, row_skipn. reflexivity.
Qed.

Lemma seq_plus k m : seq k m = map (fun t => (k + t)%nat) (seq 0 m).
Proof.
  induction k as [|k IH]; [rewrite map_id; reflexivity|].
  rewrite <- seq_shift, IH, map_map. reflexivity.
Qed.

Section RunLaws.
  Variable rate : nat -> Q -> Q.

  (* ADDITIVE OVER TIME: the figure over the whole series is the sum of the figures over the first k steps and
     over the rest -- breaker positions and unit statuses may change anywhere, also exactly at the cut *)
  Theorem run_split plant es swbs sts dt k : (k <= length dt)%nat ->
    run_figure rate plant es swbs sts dt
    == run_figure rate (take_plant k plant) es swbs (firstn k sts) (firstn k dt)
       + run_figure rate (drop_plant k plant) es swbs (skipn k sts) (skipn k dt).
  Proof.
    intros Hk. unfold run_figure. set (n := length dt).
    assert (L1 : length (firstn k dt) = k) by (apply firstn_length_le; exact Hk).
    assert (L2 : length (skipn k dt) = (n - k)%nat) by apply skipn_length.
    rewrite L1, L2.
    assert (D : dt = firstn k dt ++ skipn k dt) by (symmetry; apply firstn_skipn).
    assert (Sq : seq 0 n = seq 0 k ++ seq k (n - k)) by (rewrite <- seq_app; f_equal; unfold n; lia).
    assert (Hn : (k <= n)%nat) by exact Hk.
    clearbody n. remember (firstn k dt) as d1 eqn:E1. remember (skipn k dt) as d2 eqn:E2.
    rewrite D, Sq, map_app.
    rewrite qdot_app by (rewrite map_length, seq_length, L1; reflexivity).
    apply Qplus_comp.
    - assert (E : map (step_rate rate plant es swbs sts) (seq 0 k)
                  = map (step_rate rate (take_plant k plant) es swbs (firstn k sts)) (seq 0 k)).
      { apply map_ext_in. intros t Ht. apply in_seq in Ht. unfold step_rate. rewrite balance_step_take by lia. reflexivity. }
      rewrite E. reflexivity.
    - rewrite (seq_plus k (n - k)), map_map.
      assert (E : map (fun t => step_rate rate plant es swbs sts (k + t)) (seq 0 (n - k))
                  = map (step_rate rate (drop_plant k plant) es swbs (skipn k sts)) (seq 0 (n - k))).
      { apply map_ext. intros t. unfold step_rate. rewrite balance_step_drop. reflexivity. }
      rewrite E. reflexivity.
  Qed.

  (* LINEAR IN THE INTERVAL LENGTHS *)
  Theorem run_scale plant es swbs sts dt k :
    run_figure rate plant es swbs sts (map (Qmult k) dt) == k * run_figure rate plant es swbs sts dt.
  Proof. unfold run_figure. rewrite map_length. apply qdot_scale. Qed.

  (* ORDER-FREE: the steps reordered together with all their inputs (loads, statuses, sharing modes, breaker
     positions, intervals) *)
  Lemma qsum_perm l l' : Permutation l l' -> qsum l == qsum l'.
  Proof. induction 1; cbn [qsum]; lra. Qed.
  Lemma qdot_map2 {A} (f g : A -> Q) l : qdot (map f l) (map g l) == qsum (map (fun i => f i * g i) l).
  Proof. induction l as [|a l IH]; cbn; [reflexivity|]. rewrite IH. reflexivity. Qed.
  Lemma map_nth_seq {A} (l : list A) d : map (fun t => nth t l d) (seq 0 (length l)) = l.
  Proof.
    induction l as [|a l IH]; cbn; [reflexivity|]. f_equal. rewrite <- seq_shift, map_map. exact IH.
  Qed.
  Lemma nth_reindex {A} (d : A) p l t : (t < length p)%nat -> nth t (reindex d p l) d = nth (nth t p 0%nat) l d.
  Proof.
    intros H. unfold reindex. rewrite nth_indep with (d' := (fun i => nth i l d) 0%nat) by (rewrite map_length; exact H).
    rewrite (map_nth (fun i => nth i l d)). reflexivity.
  Qed.

  Lemma balance_step_reindex p plant es swbs sts t : (t < length p)%nat ->
    balance_step (reindex_plant p plant) es swbs (reindex [] p sts) t = balance_step plant es swbs sts (nth t p 0%nat).
  Proof.
    intros H. unfold balance_step.
    assert (V : map (view_at t) (reindex_plant p plant) = map (view_at (nth t p 0%nat)) plant).
    { unfold reindex_plant. rewrite map_map. apply map_ext. intros [c ci]. unfold view_at, reindex_cin. cbn.
      rewrite !nth_reindex by exact H. reflexivity. }
    rewrite V. apply map_ext. intros c. apply result_of_ext. intros x. rewrite !bus_at_row. unfold row.
    rewrite nth_reindex by exact H. reflexivity.
  Qed.

  Theorem run_permute plant es swbs sts dt p : Permutation p (seq 0 (length dt)) ->
    run_figure rate (reindex_plant p plant) es swbs (reindex [] p sts) (reindex 0 p dt) == run_figure rate plant es swbs sts dt.
  Proof.
    intros HP. unfold run_figure. set (F := step_rate rate plant es swbs sts).
    assert (Lp : length p = length dt) by (rewrite (Permutation_length HP), seq_length; reflexivity).
    assert (Lr : length (reindex 0 p dt) = length p) by (unfold reindex; apply map_length).
    rewrite Lr.
    assert (E : map (step_rate rate (reindex_plant p plant) es swbs (reindex [] p sts)) (seq 0 (length p)) = map F p).
    { transitivity (map F (map (fun t => nth t p 0%nat) (seq 0 (length p)))); [|rewrite map_nth_seq; reflexivity].
      rewrite map_map. apply map_ext_in. intros t Ht. apply in_seq in Ht.
      unfold step_rate, F. rewrite balance_step_reindex by lia. reflexivity. }
    rewrite E. unfold reindex. rewrite (qdot_map2 F (fun i => nth i dt 0) p).
    rewrite (qsum_perm _ _ (Permutation_map (fun i => F i * nth i dt 0) HP)).
    rewrite <- (qdot_map2 F (fun i => nth i dt 0)). rewrite (map_nth_seq dt 0). reflexivity.
  Qed.

  (* a single operating point is a series of length one; the duration is the sum of the intervals *)
  Theorem run_single_point plant es swbs sts d :
    run_figure rate plant es swbs sts [d] == step_rate rate plant es swbs sts 0 * d.
  Proof. unfold run_figure. cbn. ring. Qed.
End RunLaws.

Theorem run_duration plant es swbs sts dt n0 : length plant = S n0 ->
  run_figure (fun j _ => if Nat.eqb j 0 then 1 else 0) plant es swbs sts dt == qsum dt.
Proof.
  intros HL. unfold run_figure.
  assert (E : forall t, step_rate (fun j _ => if Nat.eqb j 0 then 1 else 0) plant es swbs sts t == 1).
  { intros t. unfold step_rate, balance_step. destruct plant as [|c plant]; [discriminate|]. cbn [map rates_from Nat.eqb].
    assert (Z : forall k l, rates_from (fun j _ => if Nat.eqb j 0 then 1 else 0) (S k) l == 0).
    { intros k l; revert k; induction l as [|a l IH]; intros k; cbn; [reflexivity|]. rewrite IH. ring. }
    rewrite Z. ring. }
  induction dt as [|d dt IH] using rev_ind; [reflexivity|].
  rewrite app_length. cbn [length]. replace (length dt + 1)%nat with (S (length dt)) by lia.
  rewrite seq_S, map_app. cbn [map Nat.add]. rewrite qdot_app by (rewrite map_length, seq_length; reflexivity).
  rewrite IH. cbn [qdot]. rewrite E, qsum_app. cbn [qsum]. ring.
Qed.
