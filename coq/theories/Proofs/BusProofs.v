(* Proofs/BusProofs.v — lemmas about Model/Bus.v *)
From Coq Require Import List Arith Bool Lia.
From Feems Require Import Model.Bus.
Import ListNotations.

#[local] Hint Constructors conn : core.

Lemma conn_mono es es' x y : incl es es' -> conn es x y -> conn es' x y.
Proof. intros Hi H; induction H; eauto. Qed.

Lemma conn_snoc es a b x y :
  conn (es ++ [(a,b)]) x y <->
  conn es x y \/ (conn es x a /\ conn es b y) \/ (conn es x b /\ conn es a y).
Proof.
  split.
  - intros H; induction H as [x|c d Hin|x y _ IH|x y z _ IH1 _ IH2].
    + auto.
    + apply in_app_or in Hin as [Hin|[Heq|[]]]; [auto|].
      inversion Heq; subst; right; left; split; auto.
    + destruct IH as [H|[[H1 H2]|[H1 H2]]]; [auto| right; right; split; auto | right; left; split; auto].
    + destruct IH1 as [H|[[H1 H2]|[H1 H2]]], IH2 as [K|[[K1 K2]|[K1 K2]]].
      * left; eauto.
      * right; left; split; eauto.
      * right; right; split; eauto.
      * right; left; split; eauto.
      * left. apply c_trans with a; [auto|]. apply c_trans with y; [auto|]. apply c_trans with b; auto.
      * left; eauto.
      * right; right; split; eauto.
      * left; eauto.
      * left. apply c_trans with b; [auto|]. apply c_trans with y; [auto|]. apply c_trans with a; auto.
  - assert (Hi : incl es (es ++ [(a,b)])) by (apply incl_appl, incl_refl).
    assert (He : conn (es ++ [(a,b)]) a b) by (apply c_edge, in_or_app; right; left; reflexivity).
    intros [H|[[H1 H2]|[H1 H2]]].
    + eapply conn_mono; eauto.
    + apply c_trans with a; [eapply conn_mono; eauto|]. apply c_trans with b; [auto|]. eapply conn_mono; eauto.
    + apply c_trans with b; [eapply conn_mono; eauto|]. apply c_trans with a; [auto|]. eapply conn_mono; eauto.
Qed.

Lemma union_eq (l : lab) a b x y :
  union l (a,b) x = union l (a,b) y <->
  l x = l y \/ (l x = l a /\ l b = l y) \/ (l x = l b /\ l a = l y).
Proof.
  unfold union; cbn [fst snd].
  destruct (Nat.eqb_spec (l x) (l b)) as [Ex|Ex], (Nat.eqb_spec (l y) (l b)) as [Ey|Ey];
    split; intros H; try lia; intuition congruence.
Qed.

Lemma labels_snoc es e : labels (es ++ [e]) = union (labels es) e.
Proof. unfold labels. rewrite fold_left_app. reflexivity. Qed.

(* quick-find labels coincide with connectivity *)
Theorem labels_iff_conn es x y : labels es x = labels es y <-> conn es x y.
Proof.
  revert x y. induction es as [|[a b] es IH] using rev_ind; intros x y.
  - cbn. split; [intros ->; auto|].
    intros H; induction H as [x|c d []|x y _ IH|x y z _ IH1 _ IH2]; congruence.
  - rewrite labels_snoc, union_eq, conn_snoc, !IH. reflexivity.
Qed.

(* connectivity does not depend on declaration order or orientation *)
Definition same_edges (es es' : list edge) : Prop :=
  forall a b, (In (a,b) es \/ In (b,a) es) <-> (In (a,b) es' \/ In (b,a) es').

Lemma conn_same_edges_1 es es' x y : same_edges es es' -> conn es x y -> conn es' x y.
Proof.
  intros Hp H; induction H as [x|a b Hin|x y _ IH|x y z _ IH1 _ IH2]; eauto.
  destruct (proj1 (Hp a b) (or_introl Hin)) as [K|K]; auto.
Qed.

Lemma same_edges_sym es es' : same_edges es es' -> same_edges es' es.
Proof. intros H a b; symmetry; apply H. Qed.

Lemma conn_same_edges es es' x y : same_edges es es' -> (conn es x y <-> conn es' x y).
Proof. intros H; split; apply conn_same_edges_1; [exact H|apply same_edges_sym, H]. Qed.

(* ---- renumbering ---- *)
Section RenumFacts.
  Variable same : nat -> nat -> bool.
  Hypothesis same_refl : forall x, same x x = true.
  Hypothesis same_sym : forall x y, same x y = same y x.
  Hypothesis same_trans : forall x y z, same x y = true -> same y z = true -> same x z = true.

  Lemma same_congr x y a : same x y = true -> same x a = same y a.
  Proof.
    intros H. destruct (same x a) eqn:E1, (same y a) eqn:E2; try reflexivity.
    - rewrite same_sym in H. rewrite (same_trans y x a H E1) in E2. discriminate.
    - rewrite (same_trans x y a H E2) in E1. discriminate.
  Qed.

  Lemma pos_congr x y ls : same x y = true -> pos same x ls = pos same y ls.
  Proof.
    intros H; induction ls as [|a r IH]; cbn; [reflexivity|].
    rewrite (same_congr x y a H). destruct (same y a); congruence.
  Qed.

  (* every element of seen ++ swbs is `same` as an element of seen or as a leader *)
  Lemma leaders_aux_cover seen swbs x :
    In x swbs -> (exists s, In s seen /\ same x s = true) \/
                 (exists a, In a (leaders_aux same seen swbs) /\ same x a = true).
  Proof.
    revert seen; induction swbs as [|b r IH]; intros seen Hin; [destruct Hin|].
    cbn [leaders_aux]. destruct Hin as [->|Hin].
    - destruct (existsb (same x) seen) eqn:E.
      + left. apply existsb_exists in E as [s [Hs Hx]]. eauto.
      + right. exists x; split; [left; reflexivity|apply same_refl].
    - destruct (IH (seen ++ [b]) Hin) as [[s [Hs Hx]]|[a [Ha Hx]]].
      + apply in_app_or in Hs as [Hs|[<-|[]]].
        * left; eauto.
        * destruct (existsb (same b) seen) eqn:E.
          -- left. apply existsb_exists in E as [s [Hs Hb]]. exists s; split; [exact Hs|].
             eapply same_trans; eauto.
          -- right. exists b; split; [left; reflexivity|exact Hx].
      + right. exists a; split; [|exact Hx].
        destruct (existsb (same b) seen); [exact Ha|right; exact Ha].
  Qed.

  Lemma leaders_cover swbs x : In x swbs -> exists a, In a (leaders same swbs) /\ same x a = true.
  Proof.
    intros H. destruct (leaders_aux_cover [] swbs x H) as [[s [[] _]]|K]; exact K.
  Qed.

  Lemma leaders_aux_incl seen swbs a : In a (leaders_aux same seen swbs) -> In a swbs.
  Proof.
    revert seen; induction swbs as [|b r IH]; intros seen H; [destruct H|].
    cbn [leaders_aux] in H. destruct (existsb (same b) seen).
    - right; eapply IH; eauto.
    - destruct H as [->|H]; [left; reflexivity|right; eapply IH; eauto].
  Qed.

  (* leaders are not `same` as anything seen before them, hence pairwise not `same` *)
  Lemma leaders_aux_fresh seen swbs a s :
    In a (leaders_aux same seen swbs) -> In s seen -> same a s = false.
  Proof.
    revert seen; induction swbs as [|b r IH]; intros seen H Hs; [destruct H|].
    cbn [leaders_aux] in H. destruct (existsb (same b) seen) eqn:E.
    - apply (IH (seen ++ [b])); [exact H|apply in_or_app; left; exact Hs].
    - destruct H as [<-|H].
      + destruct (same b s) eqn:Eb; [|reflexivity].
        assert (existsb (same b) seen = true) by (apply existsb_exists; eauto). congruence.
      + apply (IH (seen ++ [b])); [exact H|apply in_or_app; left; exact Hs].
  Qed.

  Inductive pairwise_apart : list nat -> Prop :=
  | pa_nil : pairwise_apart []
  | pa_cons a r : (forall b, In b r -> same b a = false) -> pairwise_apart r -> pairwise_apart (a :: r).

  Lemma leaders_aux_apart seen swbs : pairwise_apart (leaders_aux same seen swbs).
  Proof.
    revert seen; induction swbs as [|b r IH]; intros seen; cbn [leaders_aux]; [constructor|].
    destruct (existsb (same b) seen); [apply IH|].
    constructor; [|apply IH].
    intros c Hc. eapply leaders_aux_fresh; [exact Hc|apply in_or_app; right; left; reflexivity].
  Qed.

  Lemma leaders_apart swbs : pairwise_apart (leaders same swbs).
  Proof. apply leaders_aux_apart. Qed.

  (* pos finds the leader that is `same` as x *)
  Lemma pos_found x ls : (exists a, In a ls /\ same x a = true) ->
    exists a, nth_error ls (pos same x ls - 1) = Some a /\ same x a = true /\ 1 <= pos same x ls <= length ls.
  Proof.
    induction ls as [|b r IH]; intros [a [Ha Hx]]; [destruct Ha|].
    cbn [pos]. destruct (same x b) eqn:E.
    - exists b; cbn; repeat split; auto; lia.
    - destruct Ha as [->|Ha]; [congruence|].
      destruct (IH (ex_intro _ a (conj Ha Hx))) as [c [Hc [Hxc Hr]]].
      exists c. cbn [length]. repeat split; try lia; [|exact Hxc].
      replace (S (pos same x r) - 1) with (S (pos same x r - 1)) by lia. exact Hc.
  Qed.

  Theorem bus_of_iff_same swbs x y : In x swbs -> In y swbs ->
    (bus_of same swbs x = bus_of same swbs y <-> same x y = true).
  Proof.
    intros Hx Hy. unfold bus_of. split.
    - intros E.
      destruct (pos_found x _ (leaders_cover swbs x Hx)) as [a [Ha [Hxa _]]].
      destruct (pos_found y _ (leaders_cover swbs y Hy)) as [b [Hb [Hyb _]]].
      rewrite E in Ha. rewrite Ha in Hb. inversion Hb; subst b.
      apply same_trans with a; [exact Hxa|]. rewrite same_sym; exact Hyb.
    - apply pos_congr.
  Qed.

  (* the leaders are a system of representatives: every switchboard is `same` as exactly one *)
  Lemma apart_unique ls a b x : pairwise_apart ls -> In a ls -> In b ls ->
    same x a = true -> same x b = true -> a = b.
  Proof.
    induction 1 as [|c r Hc _ IH]; intros Ha Hb Hxa Hxb; [destruct Ha|].
    assert (Hab : same a b = true) by (apply same_trans with x; [rewrite same_sym|]; assumption).
    destruct Ha as [<-|Ha], Hb as [<-|Hb]; auto.
    - specialize (Hc b Hb). rewrite same_sym in Hc. congruence.
    - specialize (Hc a Ha). congruence.
  Qed.

  Theorem leaders_representatives swbs :
    incl (leaders same swbs) swbs /\ pairwise_apart (leaders same swbs) /\
    forall x, In x swbs -> exists a, In a (leaders same swbs) /\ same x a = true /\
                              forall b, In b (leaders same swbs) -> same x b = true -> b = a.
  Proof.
    split; [intros a; apply leaders_aux_incl|]. split; [apply leaders_apart|].
    intros x Hx. destruct (leaders_cover swbs x Hx) as [a [Ha Hxa]].
    exists a; repeat split; auto. intros b Hb Hxb.
    eapply apart_unique; eauto using leaders_apart.
  Qed.
End RenumFacts.

(* the renumbered map depends on the relation only *)
Lemma leaders_aux_ext (s1 s2 : nat -> nat -> bool) seen swbs :
  (forall x y, s1 x y = s2 x y) -> leaders_aux s1 seen swbs = leaders_aux s2 seen swbs.
Proof.
  intros H; revert seen; induction swbs as [|a r IH]; intros seen; cbn; [reflexivity|].
  assert (E : existsb (s1 a) seen = existsb (s2 a) seen).
  { induction seen as [|c q IHq]; cbn; [reflexivity|]. rewrite H, IHq; reflexivity. }
  rewrite E, IH. reflexivity.
Qed.
Lemma pos_ext (s1 s2 : nat -> nat -> bool) x ls :
  (forall x y, s1 x y = s2 x y) -> pos s1 x ls = pos s2 x ls.
Proof. intros H; induction ls as [|a r IH]; cbn; [reflexivity|]. rewrite H, IH; reflexivity. Qed.
Lemma bus_of_ext (s1 s2 : nat -> nat -> bool) swbs x :
  (forall x y, s1 x y = s2 x y) -> bus_of s1 swbs x = bus_of s2 swbs x.
Proof.
  intros H. unfold bus_of, leaders. rewrite (leaders_aux_ext s1 s2 [] swbs H). apply pos_ext, H.
Qed.
Lemma no_bus_ext (s1 s2 : nat -> nat -> bool) swbs :
  (forall x y, s1 x y = s2 x y) -> no_bus s1 swbs = no_bus s2 swbs.
Proof. intros H. unfold no_bus, leaders. rewrite (leaders_aux_ext s1 s2 [] swbs H). reflexivity. Qed.

(* same_lab of quick-find labels is an equivalence *)
Lemma same_lab_refl l x : same_lab l x x = true.
Proof. apply Nat.eqb_refl. Qed.
Lemma same_lab_sym l x y : same_lab l x y = same_lab l y x.
Proof. apply Nat.eqb_sym. Qed.
Lemma same_lab_trans l x y z : same_lab l x y = true -> same_lab l y z = true -> same_lab l x z = true.
Proof. unfold same_lab; rewrite !Nat.eqb_eq; congruence. Qed.

Lemma same_lab_conn es x y : same_lab (labels es) x y = true <-> conn es x y.
Proof. unfold same_lab. rewrite Nat.eqb_eq. apply labels_iff_conn. Qed.

Lemma same_lab_same_edges es es' x y :
  same_edges es es' -> same_lab (labels es) x y = same_lab (labels es') x y.
Proof.
  intros H. destruct (same_lab (labels es) x y) eqn:E1, (same_lab (labels es') x y) eqn:E2; auto.
  - apply same_lab_conn in E1. apply (conn_same_edges es es' x y H) in E1.
    apply same_lab_conn in E1. congruence.
  - apply same_lab_conn in E2. apply (conn_same_edges es es' x y H) in E2.
    apply same_lab_conn in E2. congruence.
Qed.

(* ---- periods ---- *)
Lemma beq_list_eq a b : beq_list a b = true <-> a = b.
Proof.
  revert b; induction a as [|x a IH]; intros [|y b]; cbn; split; try congruence; try discriminate.
  - intros H. apply andb_true_iff in H as [H1 H2]. apply eqb_prop in H1. apply IH in H2. congruence.
  - intros H; inversion H; subst. rewrite eqb_reflx. apply IH. reflexivity.
Qed.

Lemma pstart_le sts t : pstart sts t <= t.
Proof. induction t as [|t IH]; cbn [pstart]; [lia|]. destruct (changed sts (S t)); lia. Qed.

Lemma pstart_row sts t : row sts (pstart sts t) = row sts t.
Proof.
  induction t as [|t IH]; cbn [pstart]; [reflexivity|].
  destruct (changed sts (S t)) eqn:E; [reflexivity|].
  rewrite IH. unfold changed in E. apply negb_false_iff, beq_list_eq in E.
  replace (S t - 1) with t in E by lia. exact E.
Qed.

Lemma in_change_index sts t :
  In t (change_index sts) <-> t = 0 \/ (1 <= t < length sts /\ row sts (t - 1) <> row sts t).
Proof.
  unfold change_index. cbn [In]. rewrite filter_In, in_seq. unfold changed.
  rewrite negb_true_iff. split.
  - intros [H|[H1 H2]]; [left; auto|right]. split; [lia|].
    intros E. apply beq_list_eq in E. congruence.
  - intros [H|[H1 H2]]; [left; auto|right]. split; [lia|].
    destruct (beq_list (row sts (t - 1)) (row sts t)) eqn:E; [|reflexivity].
    apply beq_list_eq in E. contradiction.
Qed.

Lemma pstart_in_change_index sts t : t < length sts -> In (pstart sts t) (change_index sts).
Proof.
  induction t as [|t IH]; intros Ht; cbn [pstart]; [left; reflexivity|].
  destruct (changed sts (S t)) eqn:E; [|apply IH; lia].
  unfold change_index. right. apply filter_In. split; [apply in_seq; lia|exact E].
Qed.

Lemma pstart_no_change_between sts t u :
  pstart sts t < u <= t -> ~ In u (change_index sts).
Proof.
  induction t as [|t IH]; cbn [pstart]; intros H Hin; [lia|].
  destruct (changed sts (S t)) eqn:E; [lia|].
  destruct (Nat.eq_dec u (S t)) as [->|Hne].
  - unfold change_index in Hin. destruct Hin as [Hin|Hin]; [discriminate|].
    apply filter_In in Hin as [_ Hin]. congruence.
  - apply IH; [lia|exact Hin].
Qed.
