(* Proofs/HybridMachineProofs.v — the hybrid machine of Model/Machine.v (electric balance ; shaft balance ;
   electric balance again when a full-PTI step exists, on ONE shared PTI/PTO object) computes, step by step,
   the per-machine formulas of Model/Hybrid.v on which the C05 theorems are stated. *)
From Coq Require Import QArith Qabs List Bool Arith Lia Lqa.
From Feems Require Import Base.Num Model.Bus Model.ElecBalance Model.Shaft Model.Hybrid Model.Machine
  Proofs.ElecProofs Proofs.ShaftProofs Proofs.MachineProofs.
Import ListNotations.
Open Scope Q_scope.

Lemma nth_error_mapi_from {A B} (f : nat -> A -> B) l : forall k j a, nth_error l j = Some a ->
  nth_error (mapi_from k f l) j = Some (f (k + j)%nat a).
Proof.
  induction l as [|x l IH]; intros k [|j] a H; cbn in *; try discriminate.
  - injection H as ->. rewrite Nat.add_0_r. reflexivity.
  - rewrite (IH (S k) j a H). f_equal. f_equal. lia.
Qed.

Lemma nth_error_update {A} (f : A -> A) l : forall j a, nth_error l j = Some a ->
  nth_error (update j f l) j = Some (f a).
Proof. induction l as [|x l IH]; intros [|j] a H; cbn in *; try discriminate; [injection H as ->; reflexivity|apply IH, H]. Qed.

Lemma nth_error_nth {A} (l : list A) j a d : nth_error l j = Some a -> nth j l d = a.
Proof. revert j; induction l as [|x l IH]; intros [|j] H; cbn in *; try discriminate; [injection H as ->; reflexivity|apply IH, H]. Qed.

Lemma qsum_repeat_one n : qsum (repeat 1 n) == inject_Z (Z.of_nat n).
Proof.
  induction n as [|n IH]; [reflexivity|]. cbn [repeat qsum]. rewrite IH, Nat2Z.inj_succ. unfold Z.succ.
  rewrite inject_Z_plus. ring.
Qed.
Lemma all_zero_ones n : (0 < n)%nat -> all_zero (repeat 1 n) = false.
Proof.
  intros H. unfold all_zero, qzero. destruct (Qeq_bool (qsum (repeat 1 n)) 0) eqn:E; [|reflexivity].
  apply Qeq_bool_eq in E. rewrite qsum_repeat_one in E. exfalso.
  assert (X : (0 < Z.of_nat n)%Z) by lia. unfold Qeq in E. cbn in E. lia.
Qed.
Lemma nth_repeat {A} (a d : A) n t : (t < n)%nat -> nth t (repeat a n) d = a.
Proof. revert t; induction n as [|n IH]; intros [|t] H; cbn; try lia; [reflexivity|apply IH; lia]. Qed.

Section HM.
  Variable conv : nat -> num -> num.
  Variable to_elec : Q -> Q.

  (* what an electric balance does to a PTI/PTO that follows its set-point at every step *)
  Lemma ebalance_given_machine s s' j m : ebalance conv s = Some s' -> nth_error (e_comps s) j = Some m ->
    c_kind (m_c m) = PtiPto -> m_lsm m = repeat 1 (npoints s) -> (0 < npoints s)%nat ->
    exists m', nth_error (e_comps s') j = Some m' /\ m_c m' = m_c m /\ m_lsm m' = m_lsm m /\ m_status m' = m_status m /\
      length (m_pin m') = npoints s /\ length (m_pout m') = npoints s /\ npoints s' = npoints s /\
      forall t, (t < npoints s)%nat ->
        nth t (m_pin m') NonFinite = Fin (numq (nth t (m_pin m) NonFinite)) /\
        nth t (m_pout m') NonFinite = conv j (Fin (numq (nth t (m_pin m) NonFinite))).
  Proof.
    intros HB Hj K L Hn. unfold ebalance in HB. set (n := npoints s) in *.
    destruct (forallb (comp_ready n) (map (validate_comp n) (e_comps s))) eqn:R; [|discriminate].
    destruct (Nat.eqb (length (e_sts s)) n); [|discriminate]. cbn [andb] in HB. injection HB as <-.
    set (vcs := map (validate_comp n) (e_comps s)) in *.
    set (rows := balance (map to_cin vcs) (e_edges s) (e_swbs s) (e_sts s) n).
    assert (V : validate_comp n m = m).
    { apply validate_not_all_zero. rewrite L, (all_zero_ones n Hn). apply andb_false_r. }
    assert (Hv : nth_error vcs j = Some m).
    { unfold vcs. rewrite nth_error_map, Hj. cbn. rewrite V. reflexivity. }
    assert (NP : npoints (with_comps (mapi (write_back conv rows) vcs) s) = n).
    { (* the number of points is read from the consumers, which a balance leaves alone *)
      unfold npoints at 1. cbn [e_comps with_comps]. unfold mapi.
      assert (G : forall l k, find is_consumer (mapi_from k (write_back conv rows) (map (validate_comp n) l))
                         = find is_consumer l).
      { induction l as [|a l IH]; intros k; cbn [map mapi_from find]; [reflexivity|].
        assert (Ec : is_consumer (write_back conv rows k (validate_comp n a)) = is_consumer a).
        { unfold is_consumer. rewrite write_back_c, validate_c. reflexivity. }
        rewrite Ec. destruct (is_consumer a) eqn:Ca; [|apply IH].
        unfold is_consumer in Ca. unfold validate_comp, m_is_ps, write_back.
        destruct (c_kind (m_c a)) eqn:Ka; try discriminate. cbn [is_ps andb]. rewrite Ka. reflexivity. }
      unfold vcs. rewrite (G (e_comps s) 0%nat). reflexivity. }
    exists (write_back conv rows j m). cbn [e_comps with_comps]. unfold mapi.
    rewrite (nth_error_mapi_from (write_back conv rows) vcs 0 j m Hv). cbn [Nat.add].
    split; [reflexivity|]. unfold write_back. rewrite K. cbn [m_c m_lsm m_status m_pin m_pout with_pin with_pout].
    assert (Lr : length rows = n) by (unfold rows, balance; rewrite map_length, seq_length; reflexivity).
    split; [reflexivity|]. split; [reflexivity|]. split; [reflexivity|].
    split; [rewrite column_length; exact Lr|]. split; [rewrite map_length, column_length; exact Lr|].
    split; [exact NP|intros t H; split].
    - (* the electrical power: the set-point *)
      assert (Hk : (j < length (map to_cin vcs))%nat).
      { rewrite map_length. apply nth_error_Some. rewrite Hv. discriminate. }
      unfold rows. rewrite (column_nth _ _ _ _ _ _ _ (to_cin m) H Hk).
      rewrite (map_nth to_cin), (nth_error_nth vcs j m m Hv).
      unfold result_of, to_cin, view_at. cbn. rewrite K. unfold pin_ps. cbn. rewrite L, (nth_repeat 1 0 n t H).
      change (qzero 1) with false. cbn iota. rewrite nth_map_numq. reflexivity.
    - assert (Hk : (j < length (map to_cin vcs))%nat).
      { rewrite map_length. apply nth_error_Some. rewrite Hv. discriminate. }
      rewrite nth_indep with (d' := conv j NonFinite) by (rewrite map_length, column_length; lia).
      rewrite (map_nth (conv j)). unfold rows. rewrite (column_nth _ _ _ _ _ _ _ (to_cin m) H Hk).
      rewrite (map_nth to_cin), (nth_error_nth vcs j m m Hv).
      unfold result_of, to_cin, view_at. cbn. rewrite K. unfold pin_ps. cbn. rewrite L, (nth_repeat 1 0 n t H).
      change (qzero 1) with false. cbn iota. rewrite nth_map_numq. reflexivity.
  Qed.

  Lemma find_update_nonconsumer f l : forall j m, nth_error l j = Some m -> is_consumer m = false ->
    (forall a, is_consumer (f a) = is_consumer a) -> find is_consumer (update j f l) = find is_consumer l.
  Proof.
    induction l as [|a l IH]; intros [|j] m H C H1; cbn in *; try discriminate.
    - injection H as ->. rewrite H1, C. reflexivity.
    - destruct (is_consumer a); [reflexivity|apply (IH j m); assumption].
  Qed.

  Lemma nth_map_Fin t l : (t < length l)%nat -> nth t (map Fin l) NonFinite = Fin (nth t l 0).
  Proof.
    intros H. rewrite nth_indep with (d' := Fin 0) by (rewrite map_length; exact H). apply (map_nth Fin).
  Qed.

  Definition ts (j : nat) (x : Q) : Q := numq (conv j (Fin x)).

  (* THE HYBRID MACHINE COMPUTES THE PER-STEP FORMULAS OF Model/Hybrid.v: for a PTI/PTO that follows its electrical
     set-point at every step (sharing flag 1), the two powers the shared object holds after the combined balance are
     elec_final / shaft_final of the step's inputs -- whatever the rest of the plant looks like *)
  Theorem hbalance_fields s s' m p : hbalance conv to_elec s = Some s' ->
    shared_comp s = Some m -> c_kind (m_c m) = PtiPto ->
    m_lsm m = repeat 1 (npoints (h_elec s)) -> (0 < npoints (h_elec s))%nat ->
    l_machine (h_line s) = Some p -> lpoints (h_line s) = npoints (h_elec s) ->
    exists p', l_machine (h_line s') = Some p' /\ p_full p' = p_full p /\
      forall t, (t < npoints (h_elec s))%nat ->
        let i := {| h_e0 := numq (nth t (m_pin m) NonFinite); h_load := load_sum (line_at (h_line s) t);
                    h_full := nth t (p_full p) false; h_any_full := existsb (fun b => b) (p_full p); h_bal := false |} in
        nth t (p_elec p') 0 = elec_final (ts (h_j s)) to_elec i /\
        nth t (p_shaft p') 0 = shaft_final (ts (h_j s)) to_elec i.
  Proof.
    intros HB Hm K L Hn Hp Hl. unfold hbalance in HB. set (n := npoints (h_elec s)) in *. set (j := h_j s) in *.
    destruct (ebalance conv (h_elec s)) as [e1|] eqn:E1; [|discriminate].
    unfold shared_comp in Hm.
    destruct (ebalance_given_machine (h_elec s) e1 j m E1 Hm K L Hn) as [m1 [Hm1 [C1 [L1 [_ [Lp1 [Lo1 [N1 F1]]]]]]]].
    (* the shaft side reads the machine *)
    set (s1 := to_line {| h_elec := e1; h_line := h_line s; h_j := j |}) in *.
    assert (S1e : h_elec s1 = e1) by (unfold s1, to_line, shared_comp; cbn; rewrite Hm1, Hp; reflexivity).
    assert (S1l : h_line s1 = {| l_lds := l_lds (h_line s);
                                 l_machine := Some {| p_shaft := map numq (m_pout m1); p_full := p_full p; p_elec := map numq (m_pin m1) |};
                                 l_engs := l_engs (h_line s) |}).
    { unfold s1, to_line, shared_comp. cbn. rewrite Hm1, Hp. reflexivity. }
    set (line1 := h_line s1) in *.
    assert (P1 : lpoints line1 = n) by (rewrite S1l; exact Hl).
    (* the shaft balance *)
    set (line2 := lbalance to_elec line1) in *.
    set (sh2 := map (fun t => pti_out (line_at line1 t)) (seq 0 n)).
    assert (M2 : l_machine line2 = Some {| p_shaft := sh2; p_full := p_full p; p_elec := map to_elec sh2 |}).
    { unfold line2. rewrite lbalance_machine. rewrite S1l at 1. cbn [l_machine]. cbv zeta. rewrite P1. cbn [p_full]. reflexivity. }
    assert (SH : forall t, (t < n)%nat -> nth t sh2 0 = s2 (ts j) {| h_e0 := numq (nth t (m_pin m) NonFinite); h_load := load_sum (line_at (h_line s) t);
                    h_full := nth t (p_full p) false; h_any_full := existsb (fun b => b) (p_full p); h_bal := false |}).
    { intros t Ht. unfold sh2. rewrite (nth_map_seq _ n t 0 Ht). unfold pti_out, s2, s1. cbn [h_full h_load h_e0].
      rewrite S1l. unfold line_at at 1. cbn [l_machine l_pti p_shaft p_full].
      rewrite nth_map_numq. destruct (F1 t Ht) as [_ Fo]. rewrite Fo.
      destruct (nth t (p_full p) false); [|reflexivity].
      unfold load_sum, line_at. cbn [l_loads l_lds]. reflexivity. }
    assert (Lsh : length sh2 = n) by (unfold sh2; rewrite map_length, seq_length; reflexivity).
    set (s2' := to_elec_side {| h_elec := h_elec s1; h_line := line2; h_j := j |}) in *.
    assert (S2l : h_line s2' = line2) by (unfold s2', to_elec_side; cbn [h_line]; rewrite M2; reflexivity).
    assert (AF : any_full s2' = existsb (fun b => b) (p_full p)).
    { unfold any_full. rewrite S2l, M2. reflexivity. }
    rewrite AF in HB.
    destruct (existsb (fun b => b) (p_full p)) eqn:ANY.
    - (* a full-PTI step exists: second electric balance *)
      destruct (ebalance conv (h_elec s2')) as [e3|] eqn:E3; [|discriminate]. injection HB as <-.
      set (m2 := with_pout (map Fin sh2) (with_pin (map Fin (map to_elec sh2)) m1)).
      assert (E2c : e_comps (h_elec s2') = update j (fun m0 => with_pout (map Fin sh2) (with_pin (map Fin (map to_elec sh2)) m0)) (e_comps e1)).
      { unfold s2', to_elec_side. cbn [h_line h_elec h_j]. rewrite M2. cbn [p_shaft p_elec]. rewrite S1e. cbn [h_elec e_comps with_comps]. reflexivity. }
      assert (Hm2 : nth_error (e_comps (h_elec s2')) j = Some m2) by (rewrite E2c; exact (nth_error_update (fun m0 => with_pout (map Fin sh2) (with_pin (map Fin (map to_elec sh2)) m0)) (e_comps e1) j m1 Hm1)).
      assert (N2 : npoints (h_elec s2') = n).
      { unfold npoints. rewrite E2c. rewrite (find_update_nonconsumer (fun m0 => with_pout (map Fin sh2) (with_pin (map Fin (map to_elec sh2)) m0)) (e_comps e1) j m1 Hm1).
        - fold (npoints e1). exact N1.
        - unfold is_consumer. rewrite C1, K. reflexivity.
        - intros a. reflexivity. }
      assert (K2 : c_kind (m_c m2) = PtiPto) by (unfold m2; cbn [m_c with_pin with_pout]; rewrite C1; exact K).
      assert (L2 : m_lsm m2 = repeat 1 (npoints (h_elec s2'))) by (unfold m2; cbn [m_lsm with_pin with_pout]; rewrite L1, N2; exact L).
      assert (Hn2 : (0 < npoints (h_elec s2'))%nat) by (rewrite N2; exact Hn).
      destruct (ebalance_given_machine (h_elec s2') e3 j m2 E3 Hm2 K2 L2 Hn2) as [m3 [Hm3 [_ [_ [_ [_ [_ [_ F3]]]]]]]].
      set (s3 := to_line {| h_elec := e3; h_line := h_line s2'; h_j := j |}) in *.
      assert (S3l : h_line s3 = {| l_lds := l_lds (h_line s);
                                   l_machine := Some {| p_shaft := map numq (m_pout m3); p_full := p_full p; p_elec := map numq (m_pin m3) |};
                                   l_engs := l_engs line2 |}).
      { unfold s3, to_line, shared_comp. cbn [h_elec h_j h_line]. rewrite Hm3, S2l, M2.
        assert (D2 : l_lds line2 = l_lds (h_line s)).
        { transitivity (l_lds line1); [reflexivity|rewrite S1l; reflexivity]. }
        rewrite D2. cbn [p_full]. reflexivity. }
      assert (P3 : lpoints (h_line s3) = n) by (rewrite S3l; exact Hl).
      set (sh4 := map (fun t => pti_out (line_at (h_line s3) t)) (seq 0 n)).
      assert (M4 : l_machine (lbalance to_elec (h_line s3)) = Some {| p_shaft := sh4; p_full := p_full p; p_elec := map to_elec sh4 |}).
      { rewrite lbalance_machine. rewrite S3l at 1. cbn [l_machine]. cbv zeta. rewrite P3. cbn [p_full]. reflexivity. }
      assert (Lsh4 : length sh4 = n) by (unfold sh4; rewrite map_length, seq_length; reflexivity).
      eexists. split.
      { unfold to_elec_side. cbn [h_line]. rewrite M4. cbn [h_line]. exact M4. }
      split; [reflexivity|]. intros t Ht. cbv zeta. cbn [p_elec p_shaft].
      rewrite N2 in F3. destruct (F3 t Ht) as [Fp Fo].
      assert (P2 : nth t (m_pin m2) NonFinite = Fin (to_elec (nth t sh2 0))).
      { unfold m2. cbn [m_pin with_pin with_pout]. rewrite nth_map_Fin by (rewrite map_length, Lsh; exact Ht).
        rewrite nth_indep with (d' := to_elec 0) by (rewrite map_length, Lsh; exact Ht). rewrite (map_nth to_elec). reflexivity. }
      assert (SH4 : nth t sh4 0 = shaft_final (ts j) to_elec {| h_e0 := numq (nth t (m_pin m) NonFinite); h_load := load_sum (line_at (h_line s) t);
                    h_full := nth t (p_full p) false; h_any_full := true; h_bal := false |}).
      { unfold sh4. rewrite (nth_map_seq _ n t 0 Ht). unfold pti_out, shaft_final, elec_mid, e2. cbn [h_any_full h_full h_load h_bal].
        rewrite S3l. unfold line_at at 1. cbn [l_machine l_pti p_shaft p_full].
        rewrite nth_map_numq, Fo, P2, (SH t Ht). cbn [numq].
        destruct (nth t (p_full p) false); [|unfold ts; reflexivity].
        unfold load_sum, line_at. cbn [l_loads l_lds]. reflexivity. }
      split.
      + rewrite nth_indep with (d' := to_elec 0) by (rewrite map_length, Lsh4; exact Ht). rewrite (map_nth to_elec), SH4.
        unfold elec_final. cbn [h_any_full]. reflexivity.
      + exact SH4.
    - injection HB as <-. eexists. split; [rewrite S2l; exact M2|]. split; [reflexivity|]. intros t Ht. cbv zeta. cbn [p_elec p_shaft].
      rewrite nth_indep with (d' := to_elec 0) by (rewrite map_length, Lsh; exact Ht). rewrite (map_nth to_elec), (SH t Ht).
      unfold elec_final, shaft_final, e2. cbn [h_any_full h_bal andb]. split; reflexivity.
  Qed.
End HM.
