(* Proofs/ShaftProofs.v *)
From Coq Require Import QArith Qabs List Bool Lqa.
From Feems Require Import Base.Num Model.Shaft Model.Hybrid.
Import ListNotations.
Open Scope Q_scope.

Lemma engines_sum_eq s : engines_sum s == frac s * avail s.
Proof.
  unfold engines_sum, avail, engine_out. induction (l_engines s) as [|e es IH]; cbn [map qsum]; [ring|].
  rewrite IH. ring.
Qed.

Theorem shaft_balance s : (0 < avail s \/ load_sum s == pti_out s) -> engines_sum s + pti_out s == load_sum s.
Proof.
  intros H. rewrite engines_sum_eq. unfold frac.
  destruct (is_full s) eqn:F.
  - unfold pti_out, is_full in *. destruct (l_pti s) as [[p [|]]|]; try discriminate. ring.
  - destruct (Qle_bool (avail s) 0) eqn:A.
    + apply Qle_bool_iff in A. destruct H as [H|H]; [lra|]. rewrite H. ring.
    + assert (0 < avail s).
      { destruct (Qlt_le_dec 0 (avail s)) as [L|L]; [exact L|]. apply Qle_bool_iff in L. congruence. }
      field. lra.
Qed.

Theorem equal_loading s e : e_on e = true -> 0 < e_rated e -> engine_out s e / e_rated e == frac s.
Proof. intros On Hr. unfold engine_out. rewrite On. cbn [b2q]. field. lra. Qed.

Theorem stopped_delivers_nothing s e : e_on e = false -> engine_out s e == 0.
Proof. intros Off. unfold engine_out. rewrite Off. cbn [b2q]. ring. Qed.

Theorem full_pti s : is_full s = true ->
  pti_out s == load_sum s /\ (forall e, engine_out s e == 0) /\ engines_sum s == 0.
Proof.
  intros F. split.
  - unfold pti_out, is_full in *. destruct (l_pti s) as [[p [|]]|]; try discriminate. reflexivity.
  - split; [intros e; unfold engine_out, frac; rewrite F; ring|]. rewrite engines_sum_eq. unfold frac. rewrite F. ring.
Qed.

(* the status write-back is idempotent: marking engines that deliver nothing as stopped does not
   change any output of a repeated balance (used by C12) *)
Lemma status_after_off s e : status_after s e = false -> engine_out s e == 0.
Proof.
  unfold status_after. intros H. apply andb_false_iff in H as [H|H].
  - apply stopped_delivers_nothing, H.
  - apply negb_false_iff in H. apply Qeq_bool_eq in H. exact H.
Qed.

(* ---- hybrid ---- *)
Section HybridFacts.
  Variables (to_shaft to_elec : Q -> Q).

  (* no full-PTI step anywhere: electric pass, shaft pass *)
  Theorem hybrid_no_full_pti i : h_any_full i = false ->
    shaft_imbalance to_shaft to_elec i == 0 /\
    elec_imbalance to_shaft to_elec i == h_e0 i - to_elec (s2 to_shaft i).
  Proof.
    intros H. unfold shaft_imbalance, elec_imbalance, shaft_final, elec_final, elec_balanced_with,
      shaft_balanced_with, e2. rewrite H. split; ring.
  Qed.

  (* a full-PTI step somewhere: electric, shaft, electric, shaft -- the shaft side is exact, the electric side
     is read through one conversion round trip of the power it was balanced with *)
  Theorem hybrid_full_pti i : h_any_full i = true ->
    shaft_imbalance to_shaft to_elec i == 0 /\
    elec_imbalance to_shaft to_elec i == elec_mid to_shaft to_elec i - to_elec (shaft_final to_shaft to_elec i).
  Proof.
    intros H. unfold shaft_imbalance, elec_imbalance, elec_final, elec_balanced_with, shaft_balanced_with.
    rewrite H. split; ring.
  Qed.

  (* in a full-PTI step both sides are exact: the machine carries the shaft load, the electric side supplies its conversion *)
  Theorem hybrid_full_step i : h_any_full i = true -> h_full i = true -> h_bal i = false ->
    elec_imbalance to_shaft to_elec i == 0 /\ shaft_imbalance to_shaft to_elec i == 0 /\
    shaft_final to_shaft to_elec i = h_load i /\ elec_final to_shaft to_elec i = to_elec (h_load i).
  Proof.
    intros A F B. destruct (hybrid_full_pti i A) as [S E].
    split; [|split; [exact S|]].
    - rewrite E. unfold elec_mid, shaft_final, e2, s2. rewrite A, F, B. ring.
    - assert (SF : shaft_final to_shaft to_elec i = h_load i) by (unfold shaft_final; rewrite A, F; reflexivity).
      split; [exact SF|]. unfold elec_final. rewrite A, SF. reflexivity.
  Qed.

  (* a step at which the machine shares the load with the sources (not a full-PTI step) *)
  Theorem hybrid_load_sharing_step i : h_any_full i = true -> h_bal i = true -> h_full i = false ->
    shaft_imbalance to_shaft to_elec i == 0 /\
    elec_imbalance to_shaft to_elec i == h_e0 i - to_elec (to_shaft (h_e0 i)).
  Proof.
    intros A B F. destruct (hybrid_full_pti i A) as [S E]. split; [exact S|]. rewrite E.
    assert (M : elec_mid to_shaft to_elec i = h_e0 i) by (unfold elec_mid; rewrite B; reflexivity).
    unfold shaft_final. rewrite A, F, M. reflexivity.
  Qed.

  (* if both compositions of the machine's conversions are within eps of the identity, both balances
     hold within eps in every case; with exact conversions (eps = 0) both are exact *)
  Theorem hybrid_both_within_eps i eps :
    (forall x, Qabs (to_shaft (to_elec x) - x) <= eps) ->
    (forall x, Qabs (to_elec (to_shaft x) - x) <= eps) ->
    (h_full i = false \/ h_any_full i = true) -> (h_bal i = true -> h_full i = false) ->
    Qabs (elec_imbalance to_shaft to_elec i) <= eps /\ Qabs (shaft_imbalance to_shaft to_elec i) <= eps.
  Proof.
    intros H1 H2 Hc Hb. assert (He : 0 <= eps) by (apply Qle_trans with (Qabs (to_shaft (to_elec 0) - 0)); [apply Qabs_nonneg|apply H1]).
    assert (R : forall x, Qabs (x - to_elec (to_shaft x)) <= eps).
    { intros x. rewrite <- Qabs_opp. assert (X : - (x - to_elec (to_shaft x)) == to_elec (to_shaft x) - x) by ring. rewrite X. apply H2. }
    destruct (h_any_full i) eqn:A.
    - destruct (hybrid_full_pti i A) as [S E]. rewrite E, S. split; [|cbn; exact He].
      unfold shaft_final. rewrite A. destruct (h_full i) eqn:F.
      + assert (B : h_bal i = false) by (destruct (h_bal i); [discriminate (Hb eq_refl)|reflexivity]).
        unfold elec_mid, e2, s2. rewrite B, F.
        assert (X : to_elec (h_load i) - to_elec (h_load i) == 0) by ring. rewrite X. cbn. exact He.
      + apply R.
    - destruct (hybrid_no_full_pti i A) as [S E]. rewrite E, S. split; [|cbn; exact He].
      destruct Hc as [Hf|Hf]; [|discriminate]. unfold s2, s1. rewrite Hf. apply R.
  Qed.

  (* the two powers of the machine differ only by its conversion: the electrical power is always the conversion of
     the shaft power the shaft side was balanced with; in a full-PTI step that shaft power is the whole shaft load *)
  Theorem hybrid_loss i :
    elec_final to_shaft to_elec i = to_elec (shaft_balanced_with to_shaft to_elec i) /\
    (h_full i = true -> h_bal i = false -> shaft_balanced_with to_shaft to_elec i = h_load i /\
                        elec_final to_shaft to_elec i = to_elec (h_load i)).
  Proof.
    split.
    - unfold elec_final, shaft_balanced_with, e2. destruct (h_any_full i); reflexivity.
    - intros F B. unfold elec_final, shaft_balanced_with, shaft_final, e2, s2. rewrite F. destruct (h_any_full i); split; reflexivity.
  Qed.
End HybridFacts.
