(* Proofs/GhgProofs.v *)
From Coq Require Import QArith String List Bool Arith Lqa.
From Feems Require Import Base.Num Model.Ghg.
Import ListNotations.
Open Scope Q_scope.

Definition teq (x y : Q * Q * Q) : Prop :=
  fst (fst x) == fst (fst y) /\ snd (fst x) == snd (fst y) /\ snd x == snd y.

Lemma scaled_sum (tot : Q) (l : list (Q * (Q * Q * Q))) : ~ tot == 0 ->
  teq (triple_scale tot (triple_sum (map (fun mf => triple_scale (fst mf / tot) (snd mf)) l)))
      (triple_sum (map (fun mf => triple_scale (fst mf) (snd mf)) l)).
Proof.
  intros Ht. induction l as [|[m [[a b] c]] l IH]; cbn [map triple_sum].
  - unfold teq; cbn. repeat split; ring.
  - destruct (triple_sum (map (fun mf => triple_scale (fst mf / tot) (snd mf)) l)) as [[x y] z].
    destruct (triple_sum (map (fun mf => triple_scale (fst mf) (snd mf)) l)) as [[x' y'] z'].
    unfold teq in *; cbn in *. destruct IH as [I1 [I2 I3]].
    repeat split; [rewrite <- I1|rewrite <- I2|rewrite <- I3]; field; exact Ht.
Qed.

Lemma combine_map_fst {A B C} (f : A * B -> C) (g : A -> C) (m : list A) (fs : list B) :
  (forall a b, f (a, b) = g a) -> map f (combine m fs) = map g (firstn (length fs) m).
Proof.
  intros H. revert fs; induction m as [|a m IH]; intros [|b fs]; cbn; try reflexivity.
  rewrite H, IH. reflexivity.
Qed.

(* total x (sum of mass fraction x factor) = sum of mass x factor, for every mix with non-zero total *)
Theorem total_is_sum T s cls m t fs :
  ~ total_mass m == 0 ->
  all_some (map (fun e => entry_factors T s cls (fst e)) m) = Some fs ->
  total_emissions T s cls m = Some t -> teq t (sum_mass_factor m fs).
Proof.
  intros Ht Hfs H. unfold total_emissions in H.
  assert (E : qzero (total_mass m) = false).
  { unfold qzero. destruct (Qeq_bool (total_mass m) 0) eqn:B; [|reflexivity]. apply Qeq_bool_eq in B. contradiction. }
  rewrite E, Hfs in H. inversion H; subst; clear H. unfold sum_mass_factor.
  pose proof (scaled_sum (total_mass m) (map (fun ef => (snd (fst ef), snd ef)) (combine m fs)) Ht) as X.
  rewrite !map_map in X. cbn [fst snd] in X. exact X.
Qed.

(* a zero total gives zero *)
Theorem total_zero T s cls m : total_mass m == 0 -> total_emissions T s cls m = Some (0, 0, 0).
Proof. intros H. unfold total_emissions, qzero. rewrite (proj2 (Qeq_bool_iff _ _) H). reflexivity. Qed.

(* the tank-to-wake formula, and well-to-wake = tank-to-wake + well-to-tank is how the triple is read *)
Theorem ttw_formula_eq T co2 ch4 n2o slip :
  ttw_formula T co2 ch4 n2o slip
  == (1 - slip / 100) * (co2 + t_gwp_ch4 T * ch4 + t_gwp_n2o T * n2o) + t_gwp_ch4 T * (slip / 100).
Proof. unfold ttw_formula. ring. Qed.
