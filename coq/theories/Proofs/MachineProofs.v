(* Proofs/MachineProofs.v — lemmas about the state machines of Model/Machine.v. *)
From Coq Require Import QArith Qabs List Bool Arith Lia Lqa.
From Feems Require Import Base.Num Model.Bus Model.ElecBalance Model.Shaft Model.Machine
  Proofs.ElecProofs Proofs.ShaftProofs.
Import ListNotations.
Open Scope Q_scope.

(* ---- generic list facts ---- *)
Lemma update_app {A} (f : A -> A) pre a r : update (length pre) f (pre ++ a :: r) = pre ++ f a :: r.
Proof. induction pre as [|x pre IH]; cbn; [reflexivity|]. rewrite IH. reflexivity. Qed.

Lemma update_map_inv {A B} (g : A -> B) (f : A -> A) j l : (forall a, g (f a) = g a) -> map g (update j f l) = map g l.
Proof.
  intros H. revert j; induction l as [|a l IH]; intros [|j]; cbn; try reflexivity.
  - rewrite H. reflexivity.
  - rewrite IH. reflexivity.
Qed.

Lemma mapi_from_map_inv {A B C} (g : B -> C) (h : A -> C) (f : nat -> A -> B) k l :
  (forall j a, g (f j a) = h a) -> map g (mapi_from k f l) = map h l.
Proof. intros H. revert k; induction l as [|a l IH]; intros k; cbn; [reflexivity|]. rewrite H, IH. reflexivity. Qed.

(* ---- the static part never changes ---- *)
Section E.
  Variable conv : nat -> num -> num.

  Definition static_of (s : estate) := (map m_c (e_comps s), e_edges s, e_swbs s).

  Lemma validate_c n m : m_c (validate_comp n m) = m_c m.
  Proof. unfold validate_comp. destruct (_ && _); reflexivity. Qed.
  Lemma write_back_c rows j m : m_c (write_back conv rows j m) = m_c m.
  Proof. unfold write_back. destruct (c_kind (m_c m)); reflexivity. Qed.

  Lemma estep_static s o s' : estep conv s o = Some s' -> static_of s' = static_of s.
  Proof.
    unfold static_of. destruct o; cbn [estep]; intros H; try (injection H as <-; cbn).
    - rewrite update_map_inv by reflexivity. reflexivity.
    - rewrite update_map_inv by reflexivity. reflexivity.
    - rewrite update_map_inv by reflexivity. reflexivity.
    - reflexivity.
    - unfold ebalance in H. destruct (_ && _); [|discriminate]. injection H as <-. cbn.
      unfold mapi. rewrite (mapi_from_map_inv m_c m_c) by (intros; apply write_back_c).
      rewrite map_map. f_equal. f_equal. apply map_ext. intros; apply validate_c.
    - reflexivity.
  Qed.

  Lemma erun_static s ops s' : erun conv s ops = Some s' -> static_of s' = static_of s.
  Proof.
    revert s; induction ops as [|o ops IH]; intros s H; cbn in H.
    - injection H as <-. reflexivity.
    - destruct (estep conv s o) as [s1|] eqn:E; [|discriminate].
      rewrite (IH _ H). eapply estep_static; eassumption.
  Qed.

  Lemma erun_app s a b : erun conv s (a ++ b) = match erun conv s a with Some s' => erun conv s' b | None => None end.
  Proof. revert s; induction a as [|o a IH]; intros s; cbn; [reflexivity|]. destruct (estep conv s o); [apply IH|reflexivity]. Qed.

  (* ---- what a complete supply does ---- *)
  Definition apply_supply (c : csupply) (m : mcomp) : mcomp :=
    let m1 := with_lsm (cs_lsm c) (with_status (cs_status c) m) in
    match cs_pin c with Some l => with_pin (map Fin l) m1 | None => m1 end.
  Fixpoint apply_all (l : list csupply) (cs : list mcomp) : list mcomp :=
    match l, cs with c :: l', m :: cs' => apply_supply c m :: apply_all l' cs' | _, _ => cs end.

  Lemma with_comps_comps cs s : e_comps (with_comps cs s) = cs. Proof. reflexivity. Qed.
  Lemma with_comps_twice a b s : with_comps a (with_comps b s) = with_comps a s. Proof. reflexivity. Qed.

  Lemma erun_supply_from l : forall pre cs s rest, e_comps s = pre ++ cs -> length l = length cs ->
    erun conv s (supply_from (length pre) l ++ rest) = erun conv (with_comps (pre ++ apply_all l cs) s) rest.
  Proof.
    induction l as [|c l IH]; intros pre cs s rest Hc Hl.
    - destruct cs; [|discriminate]. cbn. rewrite <- Hc. destruct s; reflexivity.
    - destruct cs as [|m cs]; [discriminate|]. cbn [supply_from apply_all].
      unfold supply_comp. rewrite <- !app_assoc. cbn [app erun estep].
      rewrite Hc, update_app. rewrite with_comps_comps, update_app.
      assert (X : forall s0, e_comps s0 = pre ++ apply_supply c m :: cs ->
                  erun conv s0 (supply_from (S (length pre)) l ++ rest)
                  = erun conv (with_comps (pre ++ apply_supply c m :: apply_all l cs) s0) rest).
      { intros s0 H0. replace (S (length pre)) with (length (pre ++ [apply_supply c m])) by (rewrite app_length; cbn; lia).
        rewrite (IH (pre ++ [apply_supply c m]) cs s0 rest); [|rewrite <- app_assoc; exact H0|cbn in Hl; lia].
        rewrite <- app_assoc. reflexivity. }
      unfold apply_supply in *. destruct (cs_pin c) as [p|].
      + cbn [app erun estep]. rewrite !with_comps_comps, update_app, !with_comps_twice.
        rewrite X by reflexivity. rewrite with_comps_twice. reflexivity.
      + cbn [app]. rewrite X by reflexivity. rewrite !with_comps_twice. reflexivity.
  Qed.

  Lemma erun_supply l sts s rest : length l = length (e_comps s) ->
    erun conv s (supply l sts ++ rest)
    = erun conv {| e_comps := apply_all l (e_comps s); e_edges := e_edges s; e_swbs := e_swbs s; e_sts := sts |} rest.
  Proof.
    intros Hl. unfold supply. rewrite <- app_assoc.
    pose proof (erun_supply_from l [] (e_comps s) s ([ESetBreakers sts] ++ rest) eq_refl Hl) as X.
    cbn [length] in X. rewrite X. reflexivity.
  Qed.

  (* ---- two states that agree on everything a balance reads ---- *)
  Definition reads_same (m1 m2 : mcomp) : Prop :=
    m_c m1 = m_c m2 /\ m_status m1 = m_status m2 /\ m_lsm m1 = m_lsm m2 /\
    (is_consumer m1 = true \/ (m_is_ps m1 = true /\ all_zero (m_lsm m1) = false) -> m_pin m1 = m_pin m2).
  Definition bal_same (m1 m2 : mcomp) : Prop :=
    m_c m1 = m_c m2 /\ m_status m1 = m_status m2 /\ m_lsm m1 = m_lsm m2 /\
    (c_kind (m_c m1) <> Source -> m_pin m1 = m_pin m2).

  Lemma reads_same_npoints cs1 cs2 : Forall2 reads_same cs1 cs2 ->
    match find is_consumer cs1 with Some m => length (m_pin m) | None => 0%nat end
    = match find is_consumer cs2 with Some m => length (m_pin m) | None => 0%nat end.
  Proof.
    induction 1 as [|m1 m2 r1 r2 [Hc [_ [_ Hp]]] _ IH]; [reflexivity|]. cbn [find].
    assert (E : is_consumer m2 = is_consumer m1) by (unfold is_consumer; rewrite Hc; reflexivity).
    rewrite E. destruct (is_consumer m1) eqn:K; [|exact IH]. rewrite Hp by (left; reflexivity). reflexivity.
  Qed.

  Lemma reads_same_validate n m1 m2 : reads_same m1 m2 -> bal_same (validate_comp n m1) (validate_comp n m2).
  Proof.
    intros [Hc [Hs [Hl Hp]]]. unfold validate_comp, m_is_ps in *. rewrite <- Hc, <- Hl.
    destruct (is_ps (c_kind (m_c m1))) eqn:P; cbn [andb].
    - destruct (all_zero (m_lsm m1)) eqn:Z.
      + repeat split; cbn; auto.
      + repeat split; auto; try (intros _; apply Hp; right; split; reflexivity).
    - repeat split; auto; try (intros NS; apply Hp; left; unfold is_consumer;
      destruct (c_kind (m_c m1)); cbn in *; try discriminate; try reflexivity; contradiction).
  Qed.

  Lemma bal_same_to_cin m1 m2 : bal_same m1 m2 -> to_cin m1 = to_cin m2.
  Proof.
    intros [Hc [Hs [Hl Hp]]]. unfold to_cin. rewrite <- Hc, <- Hs, <- Hl.
    destruct (c_kind (m_c m1)) eqn:K; try reflexivity; rewrite Hp by congruence; reflexivity.
  Qed.
  Lemma bal_same_ready n m1 m2 : bal_same m1 m2 -> comp_ready n m1 = comp_ready n m2.
  Proof.
    intros [Hc [Hs [Hl Hp]]]. unfold comp_ready. rewrite <- Hc, <- Hs, <- Hl.
    destruct (c_kind (m_c m1)) eqn:K; try reflexivity; rewrite Hp by congruence; reflexivity.
  Qed.
  Lemma bal_same_obs rows m1 m2 j : bal_same m1 m2 ->
    eobs_comp (write_back conv rows j m1) = eobs_comp (write_back conv rows j m2).
  Proof.
    intros [Hc [Hs [Hl Hp]]]. unfold write_back, eobs_comp. rewrite <- Hc.
    destruct (c_kind (m_c m1)) eqn:K; cbn; rewrite <- ?Hc, ?K; reflexivity.
  Qed.

  Lemma Forall2_map_eq {A B} (R : A -> A -> Prop) (f : A -> B) l1 l2 :
    (forall a b, R a b -> f a = f b) -> Forall2 R l1 l2 -> map f l1 = map f l2.
  Proof. intros H. induction 1; cbn; [reflexivity|]. f_equal; auto. Qed.
  Lemma Forall2_forallb_eq {A} (R : A -> A -> Prop) (f : A -> bool) l1 l2 :
    (forall a b, R a b -> f a = f b) -> Forall2 R l1 l2 -> forallb f l1 = forallb f l2.
  Proof. intros H. induction 1; cbn; [reflexivity|]. f_equal; auto. Qed.
  Lemma Forall2_map2 {A B} (R : A -> A -> Prop) (S : B -> B -> Prop) (f : A -> B) l1 l2 :
    (forall a b, R a b -> S (f a) (f b)) -> Forall2 R l1 l2 -> Forall2 S (map f l1) (map f l2).
  Proof. intros H. induction 1; cbn; constructor; auto. Qed.

  Lemma bal_same_obs_all rows cs1 cs2 : Forall2 bal_same cs1 cs2 -> forall k,
    map eobs_comp (mapi_from k (write_back conv rows) cs1) = map eobs_comp (mapi_from k (write_back conv rows) cs2).
  Proof. induction 1 as [|m1 m2 r1 r2 H _ IH]; intros k; cbn; [reflexivity|]. rewrite (bal_same_obs rows m1 m2 k H), IH. reflexivity. Qed.

  (* a balance reads nothing but the static plant, the breaker matrix and the fields named in reads_same *)
  Theorem ebalance_reads s1 s2 : Forall2 reads_same (e_comps s1) (e_comps s2) ->
    e_edges s1 = e_edges s2 -> e_swbs s1 = e_swbs s2 -> e_sts s1 = e_sts s2 ->
    option_map eobs (ebalance conv s1) = option_map eobs (ebalance conv s2).
  Proof.
    intros HR He Hw Ht. unfold ebalance, npoints. rewrite (reads_same_npoints _ _ HR).
    set (n := match find is_consumer (e_comps s2) with Some m => length (m_pin m) | None => 0%nat end).
    assert (HB : Forall2 bal_same (map (validate_comp n) (e_comps s1)) (map (validate_comp n) (e_comps s2))).
    { apply (Forall2_map2 reads_same); [apply reads_same_validate|exact HR]. }
    rewrite (Forall2_forallb_eq bal_same _ _ _ (bal_same_ready n) HB).
    rewrite (Forall2_map_eq bal_same _ _ _ bal_same_to_cin HB). rewrite He, Hw, Ht.
    destruct (_ && _); [|reflexivity]. cbn [option_map]. f_equal. unfold eobs, mapi. cbn [e_comps with_comps].
    apply bal_same_obs_all, HB.
  Qed.

  (* after a complete supply two objects of the same plant agree on everything a balance reads *)
  Lemma apply_all_reads_same kinds l : supply_ok kinds l -> forall cs1 cs2,
    map m_c cs1 = map m_c cs2 -> map (fun m => c_kind (m_c m)) cs1 = kinds ->
    Forall2 reads_same (apply_all l cs1) (apply_all l cs2).
  Proof.
    induction 1 as [|k c kinds l Hk _ IH]; intros cs1 cs2 Hc Hks.
    - destruct cs1; [|discriminate]. destruct cs2; [|discriminate]. constructor.
    - destruct cs1 as [|m1 cs1]; [discriminate|]. destruct cs2 as [|m2 cs2]; [discriminate|].
      cbn in Hc, Hks. injection Hc as Hc0 Hc. injection Hks as Hk0 Hks. cbn [apply_all]. constructor; [|apply IH; assumption].
      unfold apply_supply, reads_same. destruct (cs_pin c) as [p|] eqn:P; cbn; repeat split; auto.
      intros [K|[K Z]].
      + exfalso. unfold is_consumer in K; cbn in K; rewrite Hk0 in K.
        destruct (Hk eq_refl) as [S|[PS _]]; destruct k; cbn in *; discriminate.
      + exfalso. unfold m_is_ps in K. cbn in K, Z. rewrite Hk0 in K.
        destruct (Hk eq_refl) as [S|[_ Z']]; [rewrite S in K; discriminate|congruence].
  Qed.

  Theorem e_history_free s1 s2 h1 h2 s1' s2' l sts :
    same_eplant s1 s2 ->
    erun conv s1 h1 = Some s1' -> erun conv s2 h2 = Some s2' ->
    length l = length (e_comps s1) ->
    supply_ok (map (fun m => c_kind (m_c m)) (e_comps s1)) l ->
    option_map eobs (erun conv s1' (supply l sts ++ [EBalance])) = option_map eobs (erun conv s2' (supply l sts ++ [EBalance])).
  Proof.
    intros [Ec [Ee Ew]] R1 R2 Hl Hok.
    pose proof (erun_static _ _ _ R1) as S1. pose proof (erun_static _ _ _ R2) as S2.
    unfold static_of in S1, S2. injection S1 as C1 E1 W1. injection S2 as C2 E2 W2.
    assert (L1 : length (e_comps s1') = length (e_comps s1)) by (rewrite <- (map_length m_c), C1, map_length; reflexivity).
    assert (L2 : length (e_comps s2') = length (e_comps s1)).
    { rewrite <- (map_length m_c), C2, <- Ec, map_length; reflexivity. }
    rewrite !erun_supply by congruence. cbn [erun estep].
    match goal with |- option_map eobs (match ?a with _ => _ end) = option_map eobs (match ?b with _ => _ end) =>
      assert (X : option_map eobs a = option_map eobs b); [|destruct a, b; cbn in *; congruence] end.
    apply ebalance_reads; cbn; try congruence.
    apply (apply_all_reads_same _ _ Hok).
    - congruence.
    - rewrite <- (map_map m_c c_kind), C1, map_map. reflexivity.
  Qed.
End E.

(* ------------------------------------------------------------------------------------------ *)
(* Masked agreement: the input of a PTI/PTO or storage unit at a step where it balances (sharing
   flag 0) is not read -- whatever an earlier calculation left there has no influence.            *)

Lemma num_eqv_refl a : num_eqv a a.
Proof. destruct a; cbn; [reflexivity|exact I]. Qed.
Lemma qzero_proper a b : a == b -> qzero a = qzero b.
Proof.
  intros H. unfold qzero. destruct (Qeq_bool a 0) eqn:A, (Qeq_bool b 0) eqn:B; try reflexivity.
  - apply Qeq_bool_eq in A. apply Qeq_bool_neq in B. exfalso. apply B. rewrite <- H. exact A.
  - apply Qeq_bool_eq in B. apply Qeq_bool_neq in A. exfalso. apply A. rewrite H. exact B.
Qed.

Definition cv_eqv (c1 c2 : cv) : Prop :=
  v_swb c1 = v_swb c2 /\ v_kind c1 = v_kind c2 /\ v_rated c1 = v_rated c2 /\ v_on c1 = v_on c2 /\
  v_lsm c1 = v_lsm c2 /\
  (v_kind c1 = Source \/ (is_ps (v_kind c1) = true /\ v_lsm c1 == 0) \/ v_pin c1 == v_pin c2).

Lemma net_term_eqv c1 c2 : cv_eqv c1 c2 -> net_term c1 == net_term c2.
Proof.
  intros [_ [K [R [O [L P]]]]]. unfold net_term, avail_of. rewrite <- K, <- R, <- O, <- L.
  destruct (v_kind c1) eqn:Kd; cbn [is_ps] in P.
  - reflexivity.
  - destruct P as [P|[[P _]|P]]; try discriminate. exact P.
  - destruct P as [P|[[_ P]|P]]; try discriminate; rewrite P; ring.
  - destruct P as [P|[[_ P]|P]]; try discriminate; rewrite P; ring.
Qed.
Lemma avail_term_eqv c1 c2 : cv_eqv c1 c2 -> avail_term c1 = avail_term c2.
Proof. intros [_ [K [R [O [L _]]]]]. unfold avail_term, avail_of. rewrite <- K, <- R, <- O, <- L. reflexivity. Qed.

Lemma filter_eqv (p1 p2 : cv -> bool) cs1 cs2 : (forall a b, cv_eqv a b -> p1 a = p2 b) ->
  Forall2 cv_eqv cs1 cs2 -> Forall2 cv_eqv (filter p1 cs1) (filter p2 cs2).
Proof.
  intros H. induction 1 as [|a b r1 r2 E _ IH]; cbn; [constructor|].
  rewrite (H a b E). destruct (p2 b); [constructor; assumption|assumption].
Qed.
Lemma qsum_map_eqv (f : cv -> Q) cs1 cs2 : (forall a b, cv_eqv a b -> f a == f b) ->
  Forall2 cv_eqv cs1 cs2 -> qsum (map f cs1) == qsum (map f cs2).
Proof. intros H. induction 1 as [|a b r1 r2 E _ IH]; cbn; [reflexivity|]. rewrite (H a b E), IH. reflexivity. Qed.
Lemma map_eq_eqv {B} (f : cv -> B) cs1 cs2 : (forall a b, cv_eqv a b -> f a = f b) ->
  Forall2 cv_eqv cs1 cs2 -> map f cs1 = map f cs2.
Proof. intros H. induction 1 as [|a b r1 r2 E _ IH]; cbn; [reflexivity|]. rewrite (H a b E), IH. reflexivity. Qed.

Section Masked.
  Variables (cs1 cs2 : list cv) (busmap : nat -> nat) (swbs : list nat).
  Hypothesis HE : Forall2 cv_eqv cs1 cs2.

  Lemma on_swb_eqv s a b : cv_eqv a b -> on_swb s a = on_swb s b.
  Proof. intros [W _]. unfold on_swb. rewrite W. reflexivity. Qed.

  Lemma net_swb_eqv s : net_swb cs1 s == net_swb cs2 s.
  Proof. unfold net_swb. apply qsum_map_eqv; [apply net_term_eqv|]. apply filter_eqv; [apply on_swb_eqv|exact HE]. Qed.
  Lemma avail_swb_eqv s : avail_swb cs1 s = avail_swb cs2 s.
  Proof.
    unfold avail_swb. f_equal. f_equal. apply map_eq_eqv; [apply avail_term_eqv|].
    apply filter_eqv; [apply on_swb_eqv|exact HE].
  Qed.
  Lemma net_bus_eqv b : net_bus cs1 busmap swbs b == net_bus cs2 busmap swbs b.
  Proof.
    unfold net_bus. induction (swbs_of_bus busmap swbs b) as [|s l IH]; cbn; [reflexivity|].
    rewrite net_swb_eqv, IH. reflexivity.
  Qed.
  Lemma avail_bus_eqv b : avail_bus cs1 busmap swbs b = avail_bus cs2 busmap swbs b.
  Proof. unfold avail_bus. f_equal. apply map_ext. intros; apply avail_swb_eqv. Qed.

  Lemma load_bus_eqv b : num_eqv (load_bus cs1 busmap swbs b) (load_bus cs2 busmap swbs b).
  Proof.
    unfold load_bus. rewrite (qzero_proper _ _ (net_bus_eqv b)), avail_bus_eqv.
    destruct (qzero (net_bus cs2 busmap swbs b)); [cbn; reflexivity|].
    destruct (qzero (avail_bus cs2 busmap swbs b)); [exact I|]. cbn. rewrite net_bus_eqv. reflexivity.
  Qed.

  Lemma result_of_eqv c1 c2 : cv_eqv c1 c2 -> num_eqv (result_of cs1 busmap swbs c1) (result_of cs2 busmap swbs c2).
  Proof.
    intros E. pose proof E as [W [K [R [O [L P]]]]]. unfold result_of. rewrite <- W, <- K.
    pose proof (load_bus_eqv (busmap (v_swb c1))) as HL.
    destruct (v_kind c1) eqn:Kd; cbn [is_ps] in P.
    - unfold out_source. rewrite <- L, <- O, <- R.
      destruct (qzero (v_lsm c1) && v_on c1); [|apply num_eqv_refl].
      destruct (load_bus cs1 busmap swbs (busmap (v_swb c1))), (load_bus cs2 busmap swbs (busmap (v_swb c1))); cbn in *; try tauto.
      rewrite HL. reflexivity.
    - destruct P as [P|[[P _]|P]]; try discriminate. exact P.
    - unfold pin_ps. rewrite <- L, <- O, <- R. destruct (qzero (v_lsm c1)) eqn:Z.
      + destruct (load_bus cs1 busmap swbs (busmap (v_swb c1))), (load_bus cs2 busmap swbs (busmap (v_swb c1))); cbn in *; try tauto.
        rewrite HL. reflexivity.
      + destruct P as [P|[[_ P]|P]]; try discriminate; [|exact P].
        unfold qzero in Z. apply Qeq_bool_neq in Z. contradiction.
    - unfold pin_ps. rewrite <- L, <- O, <- R. destruct (qzero (v_lsm c1)) eqn:Z.
      + destruct (load_bus cs1 busmap swbs (busmap (v_swb c1))), (load_bus cs2 busmap swbs (busmap (v_swb c1))); cbn in *; try tauto.
        rewrite HL. reflexivity.
      + destruct P as [P|[[_ P]|P]]; try discriminate; [|exact P].
        unfold qzero in Z. apply Qeq_bool_neq in Z. contradiction.
  Qed.

  Lemma row_eqv : Forall2 num_eqv (map (result_of cs1 busmap swbs) cs1) (map (result_of cs2 busmap swbs) cs2).
  Proof.
    assert (G : forall l1 l2, Forall2 cv_eqv l1 l2 ->
                Forall2 num_eqv (map (result_of cs1 busmap swbs) l1) (map (result_of cs2 busmap swbs) l2)).
    { induction 1; cbn; constructor; [apply result_of_eqv|]; assumption. }
    apply G, HE.
  Qed.
End Masked.

Section E2.
  Variable conv : nat -> num -> num.
  Hypothesis conv_proper : forall j a b, num_eqv a b -> num_eqv (conv j a) (conv j b).

  (* the stored input series of two objects agree wherever a balance reads them *)
  Definition pin_meqv (ps : bool) (lsm : list Q) (p1 p2 : list num) : Prop :=
    length p1 = length p2 /\
    forall t, (t < length p1)%nat ->
      exists a b, nth t p1 NonFinite = Fin a /\ nth t p2 NonFinite = Fin b /\
                  ((ps = true /\ nth t lsm 0 == 0) \/ a == b).
  Definition meqv (m1 m2 : mcomp) : Prop :=
    m_c m1 = m_c m2 /\ m_status m1 = m_status m2 /\ m_lsm m1 = m_lsm m2 /\
    (c_kind (m_c m1) = Source \/ (m_is_ps m1 = true /\ all_zero (m_lsm m1) = true) \/
     pin_meqv (m_is_ps m1) (m_lsm m1) (m_pin m1) (m_pin m2)).

  Lemma pin_meqv_refl_fin ps lsm p : forallb is_fin p = true -> pin_meqv ps lsm p p.
  Proof.
    intros H. split; [reflexivity|]. intros t Ht. rewrite forallb_forall in H.
    specialize (H (nth t p NonFinite) (nth_In _ _ Ht)). destruct (nth t p NonFinite) as [a|]; [|discriminate].
    exists a, a. repeat split. right. reflexivity.
  Qed.

  Lemma meqv_npoints l1 l2 : Forall2 meqv l1 l2 ->
    match find is_consumer l1 with Some m => length (m_pin m) | None => 0%nat end
    = match find is_consumer l2 with Some m => length (m_pin m) | None => 0%nat end.
  Proof.
    induction 1 as [|m1 m2 r1 r2 [Hc [_ [_ Hp]]] _ IH]; [reflexivity|]. cbn [find].
    assert (E : is_consumer m2 = is_consumer m1) by (unfold is_consumer; rewrite Hc; reflexivity).
    rewrite E. destruct (is_consumer m1) eqn:K; [|exact IH].
    unfold is_consumer, m_is_ps in *. destruct (c_kind (m_c m1)); try discriminate.
    destruct Hp as [Hp|[[Hp _]|[Hp _]]]; try discriminate. exact Hp.
  Qed.

  (* after validation: same, without the "will be reset" alternative *)
  Definition veqv (m1 m2 : mcomp) : Prop :=
    m_c m1 = m_c m2 /\ m_status m1 = m_status m2 /\ m_lsm m1 = m_lsm m2 /\
    (c_kind (m_c m1) = Source \/ pin_meqv (m_is_ps m1) (m_lsm m1) (m_pin m1) (m_pin m2)).

  Lemma repeat_fin_meqv ps lsm n : pin_meqv ps lsm (repeat (Fin 0) n) (repeat (Fin 0) n).
  Proof.
    apply pin_meqv_refl_fin. induction n; cbn; [reflexivity|assumption].
  Qed.

  Lemma meqv_validate n m1 m2 : meqv m1 m2 -> veqv (validate_comp n m1) (validate_comp n m2).
  Proof.
    intros [Hc [Hs [Hl Hp]]]. unfold validate_comp, m_is_ps in *. rewrite <- Hc, <- Hl.
    destruct (is_ps (c_kind (m_c m1)) && all_zero (m_lsm m1)) eqn:B.
    - repeat split; cbn; auto. right. apply repeat_fin_meqv.
    - repeat split; auto. destruct Hp as [Hp|[[P Z]|Hp]]; [left; exact Hp| |right; exact Hp].
      rewrite P, Z in B. discriminate.
  Qed.

  Lemma pin_meqv_fin ps lsm p1 p2 : pin_meqv ps lsm p1 p2 -> forallb is_fin p1 = true /\ forallb is_fin p2 = true.
  Proof.
    intros [HL H]. split; apply forallb_forall; intros x Hx; apply (In_nth _ _ NonFinite) in Hx as [t [Ht <-]].
    - destruct (H t Ht) as [a [b [A [B _]]]]. rewrite A. reflexivity.
    - rewrite <- HL in Ht. destruct (H t Ht) as [a [b [A [B _]]]]. rewrite B. reflexivity.
  Qed.

  Lemma veqv_ready n m1 m2 : veqv m1 m2 -> comp_ready n m1 = comp_ready n m2.
  Proof.
    intros [Hc [Hs [Hl Hp]]]. unfold comp_ready. rewrite <- Hc, <- Hs, <- Hl.
    destruct (c_kind (m_c m1)) eqn:K; try reflexivity;
      (destruct Hp as [Hp|Hp]; [discriminate|]); destruct (pin_meqv_fin _ _ _ _ Hp) as [F1 F2];
      destruct Hp as [HL _]; rewrite F1, F2, HL; reflexivity.
  Qed.

  Lemma nth_map_numq t p : nth t (map numq p) 0 = numq (nth t p NonFinite).
  Proof. change 0 with (numq NonFinite) at 1. apply map_nth. Qed.

  Lemma veqv_view t m1 m2 : veqv m1 m2 -> (c_kind (m_c m1) = Source \/ (t < length (m_pin m1))%nat) ->
    cv_eqv (view_at t (to_cin m1)) (view_at t (to_cin m2)).
  Proof.
    intros [Hc [Hs [Hl Hp]]] Ht. unfold to_cin, view_at, cv_eqv. cbn. rewrite <- Hc, <- Hs, <- Hl.
    repeat split. destruct (c_kind (m_c m1)) eqn:K; [left; reflexivity| | |].
    all: destruct Hp as [Hp|[HL Hp]]; [discriminate|]; destruct Ht as [Ht|Ht]; [discriminate|].
    all: destruct (Hp t Ht) as [a [b [A [B D]]]]; unfold m_is_ps in D; rewrite K in D; cbn [is_ps] in D.
    all: rewrite !nth_map_numq, A, B; cbn [numq].
    - destruct D as [[D1 _]|D]; [discriminate|]. right; right; exact D.
    - destruct D as [[_ D2]|D]; [right; left; split; [reflexivity|exact D2]|right; right; exact D].
    - destruct D as [[_ D2]|D]; [right; left; split; [reflexivity|exact D2]|right; right; exact D].
  Qed.

  Lemma views_eqv n t cs1 cs2 : Forall2 veqv cs1 cs2 -> forallb (comp_ready n) cs1 = true -> (t < n)%nat ->
    Forall2 cv_eqv (map (view_at t) (map to_cin cs1)) (map (view_at t) (map to_cin cs2)).
  Proof.
    induction 1 as [|m1 m2 r1 r2 E _ IH]; intros R Ht; cbn; [constructor|].
    cbn in R. apply andb_true_iff in R as [R0 R]. constructor; [|apply IH; assumption].
    apply veqv_view; [exact E|]. unfold comp_ready in R0. destruct (c_kind (m_c m1)); [left; reflexivity| | |]; right.
    - apply andb_true_iff in R0 as [R0 _]. apply Nat.eqb_eq in R0. lia.
    - apply andb_true_iff in R0 as [R0 _]. apply andb_true_iff in R0 as [_ R0]. apply Nat.eqb_eq in R0. lia.
    - apply andb_true_iff in R0 as [R0 _]. apply andb_true_iff in R0 as [_ R0]. apply Nat.eqb_eq in R0. lia.
  Qed.

  Lemma Forall2_map_in {A B} (R : B -> B -> Prop) (f g : A -> B) l :
    (forall a, In a l -> R (f a) (g a)) -> Forall2 R (map f l) (map g l).
  Proof. induction l; cbn; intros H; constructor; auto. Qed.

  Lemma rows_eqv n cs1 cs2 es swbs sts : Forall2 veqv cs1 cs2 -> forallb (comp_ready n) cs1 = true ->
    Forall2 (Forall2 num_eqv) (balance (map to_cin cs1) es swbs sts n) (balance (map to_cin cs2) es swbs sts n).
  Proof.
    intros HV HR. unfold balance. apply Forall2_map_in. intros t Ht. apply in_seq in Ht.
    unfold balance_step. apply row_eqv. apply (views_eqv n); [assumption|assumption|lia].
  Qed.

  Lemma nth_eqv j r1 r2 : Forall2 num_eqv r1 r2 -> num_eqv (nth j r1 NonFinite) (nth j r2 NonFinite).
  Proof. intros H. revert j. induction H; intros [|j]; cbn; auto; exact I. Qed.
  Lemma column_eqv j rows1 rows2 : Forall2 (Forall2 num_eqv) rows1 rows2 ->
    Forall2 num_eqv (column j rows1) (column j rows2).
  Proof. unfold column. induction 1; cbn; constructor; [apply nth_eqv|]; assumption. Qed.
  Lemma map_conv_eqv j l1 l2 : Forall2 num_eqv l1 l2 -> Forall2 num_eqv (map (conv j) l1) (map (conv j) l2).
  Proof. induction 1; cbn; constructor; [apply conv_proper|]; assumption. Qed.

  Definition pair_eqv (a b : list num * list num) : Prop :=
    Forall2 num_eqv (fst a) (fst b) /\ Forall2 num_eqv (snd a) (snd b).

  Lemma obs_write_back_eqv rows1 rows2 cs1 cs2 : Forall2 (Forall2 num_eqv) rows1 rows2 ->
    Forall2 veqv cs1 cs2 -> forall k,
    Forall2 pair_eqv (map eobs_comp (mapi_from k (write_back conv rows1) cs1))
                     (map eobs_comp (mapi_from k (write_back conv rows2) cs2)).
  Proof.
    intros HR. induction 1 as [|m1 m2 r1 r2 [Hc _] _ IH]; intros k; cbn; constructor; [|apply IH].
    unfold write_back, eobs_comp. rewrite <- Hc. destruct (c_kind (m_c m1)) eqn:K; cbn; rewrite <- ?Hc, ?K; split; cbn;
      try constructor; try (apply column_eqv; exact HR); apply map_conv_eqv, column_eqv, HR.
  Qed.

  (* MASKED NON-INTERFERENCE: two objects of one plant whose fields agree wherever a balance reads them
     -- i.e. up to the inputs of PTI/PTO and storage units at steps where those units balance, up to
     inputs that validation resets, and up to every power_output -- give the same calculation *)
  Theorem ebalance_masked s1 s2 : Forall2 meqv (e_comps s1) (e_comps s2) ->
    e_edges s1 = e_edges s2 -> e_swbs s1 = e_swbs s2 -> e_sts s1 = e_sts s2 ->
    match ebalance conv s1, ebalance conv s2 with
    | Some a, Some b => obs_eqv (eobs a) (eobs b)
    | None, None => True
    | _, _ => False
    end.
  Proof.
    intros HM He Hw Ht. unfold ebalance, npoints. rewrite (meqv_npoints _ _ HM).
    set (n := match find is_consumer (e_comps s2) with Some m => length (m_pin m) | None => 0%nat end).
    assert (HV : Forall2 veqv (map (validate_comp n) (e_comps s1)) (map (validate_comp n) (e_comps s2))).
    { apply (Forall2_map2 meqv); [apply meqv_validate|exact HM]. }
    rewrite (Forall2_forallb_eq veqv _ _ _ (veqv_ready n) HV). rewrite He, Hw, Ht.
    destruct (forallb (comp_ready n) (map (validate_comp n) (e_comps s2))) eqn:R; cbn [andb]; [|exact I].
    destruct (Nat.eqb (length (e_sts s2)) n); [|exact I].
    unfold obs_eqv, eobs, mapi. cbn [e_comps with_comps].
    apply obs_write_back_eqv; [|exact HV]. apply rows_eqv; [exact HV|].
    rewrite (Forall2_forallb_eq veqv _ _ _ (veqv_ready n) HV). exact R.
  Qed.

  (* ---- repeating a calculation ---- *)
  Lemma balance_nth plant es swbs sts n t : (t < n)%nat ->
    nth t (balance plant es swbs sts n) [] = balance_step plant es swbs sts t.
  Proof.
    intros H. unfold balance. rewrite nth_indep with (d' := balance_step plant es swbs sts 0%nat)
      by (rewrite map_length, seq_length; exact H).
    rewrite map_nth, seq_nth by exact H. reflexivity.
  Qed.

  Lemma column_nth plant es swbs sts n t k d : (t < n)%nat -> (k < length plant)%nat ->
    nth t (column k (balance plant es swbs sts n)) NonFinite
    = result_of (map (view_at t) plant) (bus_at es swbs sts t) swbs (view_at t (nth k plant d)).
  Proof.
    intros Ht Hk. unfold column.
    rewrite nth_indep with (d' := nth k (@nil num) NonFinite) by (unfold balance; rewrite !map_length, seq_length; exact Ht).
    rewrite (map_nth (fun r => nth k r NonFinite)). rewrite balance_nth by exact Ht. unfold balance_step.
    set (views := map (view_at t) plant). set (f := result_of views (bus_at es swbs sts t) swbs).
    rewrite nth_indep with (d' := f (view_at t d)) by (unfold views; rewrite !map_length; exact Hk).
    rewrite (map_nth f). unfold views. rewrite (map_nth (view_at t)). reflexivity.
  Qed.

  Lemma column_length k rows : length (column k rows) = length rows.
  Proof. unfold column. apply map_length. Qed.

  Definition ps_fin (m : mcomp) : bool := negb (m_is_ps m) || forallb is_fin (m_pin m).

  Lemma validate_not_all_zero n m : m_is_ps m && all_zero (m_lsm m) = false -> validate_comp n m = m.
  Proof. intros H. unfold validate_comp. rewrite H. reflexivity. Qed.

  Lemma meqv_after_balance n cs es swbs sts :
    let vcs := map (validate_comp n) cs in
    let rows := balance (map to_cin vcs) es swbs sts n in
    forallb (comp_ready n) vcs = true ->
    forall rest pre, cs = pre ++ rest ->
      forallb ps_fin (mapi_from (length pre) (write_back conv rows) (map (validate_comp n) rest)) = true ->
      Forall2 meqv rest (mapi_from (length pre) (write_back conv rows) (map (validate_comp n) rest)).
  Proof.
    intros vcs rows HR. induction rest as [|m rest IH]; intros pre Hcs HF; cbn; [constructor|].
    cbn in HF. apply andb_true_iff in HF as [HF0 HF].
    constructor.
    2:{ replace (S (length pre)) with (length (pre ++ [m])) by (rewrite app_length; cbn; lia).
        apply IH; [rewrite <- app_assoc; exact Hcs|].
        replace (length (pre ++ [m])) with (S (length pre)) by (rewrite app_length; cbn; lia). exact HF. }
    (* the component at position k = length pre *)
    set (k := length pre) in *.
    assert (Hk : (k < length (map to_cin vcs))%nat).
    { unfold vcs. rewrite !map_length, Hcs, app_length. cbn. unfold k. lia. }
    assert (Hnth : nth k (map to_cin vcs) (to_cin m) = to_cin (validate_comp n m)).
    { unfold vcs. rewrite Hcs. rewrite !map_app. cbn [map]. rewrite app_nth2 by (rewrite !map_length; unfold k; lia).
      rewrite !map_length. unfold k. rewrite Nat.sub_diag. reflexivity. }
    assert (Hready : comp_ready n (validate_comp n m) = true).
    { unfold vcs in HR. rewrite Hcs, map_app, forallb_app in HR. apply andb_true_iff in HR as [_ HR].
      cbn in HR. apply andb_true_iff in HR as [HR _]. exact HR. }
    unfold meqv. rewrite write_back_c, validate_c.
    assert (Hst : m_status (write_back conv rows k (validate_comp n m)) = m_status m /\
                  m_lsm (write_back conv rows k (validate_comp n m)) = m_lsm m).
    { unfold write_back, validate_comp. destruct (m_is_ps m && all_zero (m_lsm m)); destruct (c_kind (m_c _)); cbn; split; reflexivity. }
    destruct Hst as [-> ->]. repeat split.
    destruct (c_kind (m_c m)) eqn:K; [left; reflexivity| | |]; right.
    - (* consumer: untouched *)
      right. unfold validate_comp, m_is_ps. rewrite K. cbn [is_ps andb]. unfold write_back. rewrite K.
      apply pin_meqv_refl_fin. unfold validate_comp, m_is_ps in Hready. rewrite K in Hready. cbn [is_ps andb] in Hready.
      unfold comp_ready in Hready. rewrite K in Hready. apply andb_true_iff in Hready as [_ H]. exact H.
    - (* PTI/PTO *)
      destruct (all_zero (m_lsm m)) eqn:Z; [left; split; [unfold m_is_ps; rewrite K; reflexivity|reflexivity]|right].
      assert (V : validate_comp n m = m) by (apply validate_not_all_zero; unfold m_is_ps; rewrite K, Z; reflexivity).
      rewrite V in *. unfold write_back in *. rewrite K in *. cbn [m_pin with_pout with_pin] in *.
      unfold comp_ready in Hready. rewrite K in Hready.
      apply andb_true_iff in Hready as [Hready Hfin]. apply andb_true_iff in Hready as [_ Hlen]. apply Nat.eqb_eq in Hlen.
      unfold ps_fin, m_is_ps in HF0. cbn [m_c with_pout with_pin m_pin] in HF0. rewrite K in HF0. cbn [is_ps negb orb] in HF0.
      split; [rewrite column_length; unfold rows, balance; rewrite map_length, seq_length; exact Hlen|].
      intros t Ht. rewrite Hlen in Ht.
      rewrite forallb_forall in Hfin. assert (Ht' : (t < length (m_pin m))%nat) by lia.
      pose proof (Hfin _ (nth_In _ NonFinite Ht')) as Fa. destruct (nth t (m_pin m) NonFinite) as [a|] eqn:A; [|discriminate].
      rewrite forallb_forall in HF0.
      assert (Hin : In (nth t (column k rows) NonFinite) (column k rows)).
      { apply nth_In. rewrite column_length. unfold rows, balance. rewrite map_length, seq_length. exact Ht. }
      pose proof (HF0 _ Hin) as Fb.
      unfold rows in Fb |- *. rewrite (column_nth _ _ _ _ _ _ _ (to_cin m) Ht Hk) in Fb |- *. rewrite Hnth in Fb |- *.
      unfold result_of in Fb |- *. unfold to_cin, view_at in Fb |- *. cbn in Fb |- *. rewrite K in Fb |- *.
      unfold pin_ps in Fb |- *. cbn in Fb |- *. rewrite nth_map_numq, A in Fb |- *. cbn [numq] in Fb |- *.
      destruct (qzero (nth t (m_lsm m) 0)) eqn:Q.
      + match type of Fb with is_fin ?x = true => destruct x as [b|] eqn:B; [|discriminate] end.
        exists a, b. repeat split. left. split; [unfold m_is_ps; rewrite K; reflexivity|]. unfold qzero in Q. apply Qeq_bool_eq in Q. exact Q.
      + exists a, a. repeat split. right. reflexivity.
    - (* storage *)
      destruct (all_zero (m_lsm m)) eqn:Z; [left; split; [unfold m_is_ps; rewrite K; reflexivity|reflexivity]|right].
      assert (V : validate_comp n m = m) by (apply validate_not_all_zero; unfold m_is_ps; rewrite K, Z; reflexivity).
      rewrite V in *. unfold write_back in *. rewrite K in *. cbn [m_pin with_pout with_pin] in *.
      unfold comp_ready in Hready. rewrite K in Hready.
      apply andb_true_iff in Hready as [Hready Hfin]. apply andb_true_iff in Hready as [_ Hlen]. apply Nat.eqb_eq in Hlen.
      unfold ps_fin, m_is_ps in HF0. cbn [m_c with_pout with_pin m_pin] in HF0. rewrite K in HF0. cbn [is_ps negb orb] in HF0.
      split; [rewrite column_length; unfold rows, balance; rewrite map_length, seq_length; exact Hlen|].
      intros t Ht. rewrite Hlen in Ht.
      rewrite forallb_forall in Hfin. assert (Ht' : (t < length (m_pin m))%nat) by lia.
      pose proof (Hfin _ (nth_In _ NonFinite Ht')) as Fa. destruct (nth t (m_pin m) NonFinite) as [a|] eqn:A; [|discriminate].
      rewrite forallb_forall in HF0.
      assert (Hin : In (nth t (column k rows) NonFinite) (column k rows)).
      { apply nth_In. rewrite column_length. unfold rows, balance. rewrite map_length, seq_length. exact Ht. }
      pose proof (HF0 _ Hin) as Fb.
      unfold rows in Fb |- *. rewrite (column_nth _ _ _ _ _ _ _ (to_cin m) Ht Hk) in Fb |- *. rewrite Hnth in Fb |- *.
      unfold result_of in Fb |- *. unfold to_cin, view_at in Fb |- *. cbn in Fb |- *. rewrite K in Fb |- *.
      unfold pin_ps in Fb |- *. cbn in Fb |- *. rewrite nth_map_numq, A in Fb |- *. cbn [numq] in Fb |- *.
      destruct (qzero (nth t (m_lsm m) 0)) eqn:Q.
      + match type of Fb with is_fin ?x = true => destruct x as [b|] eqn:B; [|discriminate] end.
        exists a, b. repeat split. left. split; [unfold m_is_ps; rewrite K; reflexivity|]. unfold qzero in Q. apply Qeq_bool_eq in Q. exact Q.
      + exists a, a. repeat split. right. reflexivity.
  Qed.

  (* REPEATABLE: a second calculation on the object as the first one left it gives the same results,
     provided the first one's balancing inputs are finite (every bus with net load had capacity) *)
  Theorem e_repeatable s s' : ebalance conv s = Some s' -> forallb ps_fin (e_comps s') = true ->
    match ebalance conv s' with Some s'' => obs_eqv (eobs s') (eobs s'') | None => False end.
  Proof.
    intros HB HF. pose proof HB as HB0. unfold ebalance in HB.
    destruct (forallb (comp_ready (npoints s)) (map (validate_comp (npoints s)) (e_comps s))) eqn:R; [|discriminate].
    destruct (Nat.eqb (length (e_sts s)) (npoints s)); [|discriminate]. cbn [andb] in HB. injection HB as <-.
    cbn [e_comps with_comps] in HF. unfold mapi in HF.
    pose proof (meqv_after_balance (npoints s) (e_comps s) (e_edges s) (e_swbs s) (e_sts s) R (e_comps s) [] eq_refl HF) as HM.
    cbn [length] in HM.
    match goal with |- match ebalance conv ?S' with _ => _ end =>
      pose proof (ebalance_masked s S' HM eq_refl eq_refl eq_refl) as X end.
    rewrite HB0 in X. exact X.
  Qed.
End E2.

(* ------------------------------------------------------------------------------------------ *)
(* shaft line: what a balance leaves behind (engine statuses rewritten, PTI/PTO shaft power
   overwritten in full-PTI steps) does not change a repeated balance                            *)

Definition line_after (s : line) : line :=
  {| l_loads := l_loads s;
     l_pti := match l_pti s with Some (_, full) => Some (pti_out s, full) | None => None end;
     l_engines := map (fun e => {| e_rated := e_rated e; e_on := status_after s e |}) (l_engines s) |}.

Lemma Qle_bool_proper a b c : a == b -> Qle_bool a c = Qle_bool b c.
Proof.
  intros H. destruct (Qle_bool a c) eqn:A, (Qle_bool b c) eqn:B; try reflexivity.
  - apply Qle_bool_iff in A. rewrite H in A. apply Qle_bool_iff in A. congruence.
  - apply Qle_bool_iff in B. rewrite <- H in B. apply Qle_bool_iff in B. congruence.
Qed.

Lemma line_after_pti s : pti_out (line_after s) = pti_out s /\ is_full (line_after s) = is_full s /\
  load_sum (line_after s) = load_sum s.
Proof.
  unfold pti_out at 1, is_full at 1, load_sum at 1, line_after. cbn [l_pti l_loads].
  unfold pti_out, is_full, load_sum. destruct (l_pti s) as [[p [|]]|]; repeat split; reflexivity.
Qed.

Lemma b2q_status_after s e : e_rated e * b2q (status_after s e) == (if qzero (frac s) then 0 else e_rated e * b2q (e_on e)).
Proof.
  unfold status_after, engine_out. destruct (qzero (frac s)) eqn:Z.
  - unfold qzero in Z. apply Qeq_bool_eq in Z.
    assert (X : qzero (e_rated e * frac s * b2q (e_on e)) = true).
    { unfold qzero. apply Qeq_bool_iff. rewrite Z. ring. }
    rewrite X. cbn. rewrite andb_false_r. cbn. ring.
  - destruct (e_on e); cbn [andb b2q]; [|ring].
    destruct (qzero (e_rated e * frac s * 1)) eqn:Y; cbn [negb b2q]; [|ring].
    unfold qzero in *. apply Qeq_bool_eq in Y. apply Qeq_bool_neq in Z.
    assert (e_rated e == 0).
    { destruct (Qeq_dec (e_rated e) 0) as [E|E]; [exact E|]. exfalso. apply Z.
      assert (e_rated e * frac s == 0) by (rewrite <- Y; ring).
      apply Qmult_integral in H. tauto. }
    rewrite H. ring.
Qed.

Lemma avail_after s : avail (line_after s) == (if qzero (frac s) then 0 else avail s).
Proof.
  unfold avail, line_after. cbn [l_engines]. rewrite map_map. cbn [e_rated e_on].
  induction (l_engines s) as [|e es IH]; cbn [map qsum].
  - destruct (qzero (frac s)); reflexivity.
  - rewrite IH, b2q_status_after. destruct (qzero (frac s)); ring.
Qed.

Lemma frac_after s : frac (line_after s) == frac s.
Proof.
  destruct (line_after_pti s) as [P [F L]].
  pose proof (avail_after s) as A.
  unfold frac at 1. rewrite F, P, L.
  destruct (is_full s) eqn:Fu; [unfold frac; rewrite Fu; reflexivity|].
  destruct (qzero (frac s)) eqn:Z.
  - rewrite (Qle_bool_proper _ 0 0 A). cbn. unfold qzero in Z. apply Qeq_bool_eq in Z. rewrite Z. reflexivity.
  - rewrite (Qle_bool_proper _ _ 0 A). unfold frac in Z |- *. rewrite Fu in Z |- *.
    destruct (Qle_bool (avail s) 0); [reflexivity|]. rewrite A. reflexivity.
Qed.

Theorem line_after_idem s e :
  let e' := {| e_rated := e_rated e; e_on := status_after s e |} in
  engine_out (line_after s) e' == engine_out s e /\ status_after (line_after s) e' = status_after s e.
Proof.
  intros e'. assert (O : engine_out (line_after s) e' == engine_out s e).
  { unfold engine_out, e'. cbn [e_rated e_on]. rewrite frac_after.
    unfold status_after, engine_out. destruct (e_on e); cbn [andb b2q]; [|ring].
    destruct (qzero (e_rated e * frac s * 1)) eqn:Y; cbn [negb b2q]; [|ring].
    unfold qzero in Y. apply Qeq_bool_eq in Y. rewrite Y. ring. }
  split; [exact O|]. unfold status_after at 1. rewrite (qzero_proper _ _ O). unfold e'. cbn [e_on].
  unfold status_after. destruct (e_on e); cbn; [|reflexivity]. destruct (qzero (engine_out s _)); reflexivity.
Qed.

Section L.
  Variable to_elec : Q -> Q.

  Lemma nth_map_seq {A} (f : nat -> A) n t d : (t < n)%nat -> nth t (map f (seq 0 n)) d = f t.
  Proof.
    intros H. rewrite nth_indep with (d' := f 0%nat) by (rewrite map_length, seq_length; exact H).
    rewrite map_nth, seq_nth by exact H. reflexivity.
  Qed.

  Lemma lpoints_lbalance s : lpoints (lbalance to_elec s) = lpoints s.
  Proof. reflexivity. Qed.

  (* the object one balance leaves behind is, step by step, the line with its statuses rewritten and
     its PTI/PTO shaft power overwritten *)
  Lemma line_at_lbalance s t : (t < lpoints s)%nat -> line_at (lbalance to_elec s) t = line_after (line_at s t).
  Proof.
    intros Ht.
    assert (E1 : l_pti (line_at s t) = match l_machine s with
                  | Some p => Some (nth t (p_shaft p) 0, nth t (p_full p) false) | None => None end) by reflexivity.
    assert (E2 : l_engines (line_at s t)
                 = map (fun g => {| e_rated := g_rated g; e_on := nth t (g_status g) false |}) (l_engs s)) by reflexivity.
    assert (E3 : l_loads (line_at s t) = map (fun l => nth t l 0) (l_lds s)) by reflexivity.
    unfold line_after. rewrite E1, E2, E3. unfold line_at at 1. unfold lbalance. cbn [l_lds l_machine l_engs].
    f_equal.
    - destruct (l_machine s) as [p|]; [|reflexivity].
      cbn [p_shaft p_full]. rewrite nth_map_seq by exact Ht. reflexivity.
    - rewrite !map_map. apply map_ext. intros g.
      cbn [g_rated g_status e_rated]. rewrite nth_map_seq by exact Ht. reflexivity.
  Qed.

  Definition bal_eng (s : lstate) (g : meng) : meng :=
    {| g_rated := g_rated g;
       g_status := map (fun t => status_after (line_at s t) {| e_rated := g_rated g; e_on := nth t (g_status g) false |}) (seq 0 (lpoints s));
       g_pout := map (fun t => engine_out (line_at s t) {| e_rated := g_rated g; e_on := nth t (g_status g) false |}) (seq 0 (lpoints s)) |}.
  Lemma lbalance_engs s : l_engs (lbalance to_elec s) = map (bal_eng s) (l_engs s).
  Proof. reflexivity. Qed.
  Lemma lbalance_machine s : l_machine (lbalance to_elec s)
    = match l_machine s with
      | Some p => let sh := map (fun t => pti_out (line_at s t)) (seq 0 (lpoints s)) in
                  Some {| p_shaft := sh; p_full := p_full p; p_elec := map to_elec sh |}
      | None => None end.
  Proof. reflexivity. Qed.

  (* REPEATABLE (shaft line): statuses, PTI/PTO powers identical; engine outputs equal as rationals *)
  Theorem l_repeatable s :
    map g_status (l_engs (lbalance to_elec (lbalance to_elec s))) = map g_status (l_engs (lbalance to_elec s)) /\
    l_machine (lbalance to_elec (lbalance to_elec s)) = l_machine (lbalance to_elec s) /\
    Forall2 (Forall2 Qeq) (map g_pout (l_engs (lbalance to_elec (lbalance to_elec s)))) (map g_pout (l_engs (lbalance to_elec s))).
  Proof.
    set (s1 := lbalance to_elec s).
    assert (HP : forall t, In t (seq 0 (lpoints s)) -> line_at s1 t = line_after (line_at s t)).
    { intros t Ht. apply in_seq in Ht. apply line_at_lbalance. lia. }
    assert (HL : lpoints s1 = lpoints s) by reflexivity.
    assert (HN : forall t (g : meng), In t (seq 0 (lpoints s)) ->
              nth t (g_status (bal_eng s g)) false
              = status_after (line_at s t) {| e_rated := g_rated g; e_on := nth t (g_status g) false |}).
    { intros t g Ht. apply in_seq in Ht. unfold bal_eng. cbn [g_status]. rewrite nth_map_seq by lia. reflexivity. }
    rewrite (lbalance_engs s1), (lbalance_machine s1).
    assert (E1 : l_engs s1 = map (bal_eng s) (l_engs s)) by reflexivity.
    assert (E2 : l_machine s1 = match l_machine s with
      | Some p => let sh := map (fun t => pti_out (line_at s t)) (seq 0 (lpoints s)) in
                  Some {| p_shaft := sh; p_full := p_full p; p_elec := map to_elec sh |}
      | None => None end) by reflexivity.
    rewrite E1, E2. clear E1 E2. rewrite !map_map.
    split; [|split].
    - apply map_ext. intros g. unfold bal_eng at 1. cbn [g_status]. rewrite HL.
      apply map_ext_in. intros t Ht. rewrite (HP t Ht), (HN t g Ht).
      apply (line_after_idem (line_at s t) {| e_rated := g_rated g; e_on := nth t (g_status g) false |}).
    - destruct (l_machine s) as [p|]; [|reflexivity]. cbn zeta. cbn [p_full]. rewrite HL.
      assert (E : map (fun t => pti_out (line_at s1 t)) (seq 0 (lpoints s)) = map (fun t => pti_out (line_at s t)) (seq 0 (lpoints s))).
      { apply map_ext_in. intros t Ht. rewrite (HP t Ht). apply line_after_pti. }
      rewrite E. reflexivity.
    - induction (l_engs s) as [|g gs IH]; cbn [map]; constructor; [|exact IH].
      unfold bal_eng at 1. cbn [g_pout]. rewrite HL. unfold bal_eng at 3. cbn [g_pout].
      apply Forall2_map_in. intros t Ht. rewrite (HP t Ht), (HN t g Ht).
      apply (line_after_idem (line_at s t) {| e_rated := g_rated g; e_on := nth t (g_status g) false |}).
  Qed.

  (* what a shaft-line balance reads: the loads, the engines' ratings and statuses, the PTI/PTO's shaft power and
     full-PTI flags -- not the engines' previous outputs, not the PTI/PTO's electrical power *)
  Definition lreads_same (s1 s2 : lstate) : Prop :=
    l_lds s1 = l_lds s2 /\
    map (fun g => (g_rated g, g_status g)) (l_engs s1) = map (fun g => (g_rated g, g_status g)) (l_engs s2) /\
    option_map (fun p => (p_shaft p, p_full p)) (l_machine s1) = option_map (fun p => (p_shaft p, p_full p)) (l_machine s2).

  Lemma map_via {A B C} (f : A -> B) (h : B -> C) (k : A -> C) l1 l2 :
    (forall a, k a = h (f a)) -> map f l1 = map f l2 -> map k l1 = map k l2.
  Proof.
    intros H E. rewrite (map_ext k (fun a => h (f a)) H l1), (map_ext k (fun a => h (f a)) H l2).
    rewrite <- !(map_map f h). rewrite E. reflexivity.
  Qed.

  Lemma lreads_line_at s1 s2 t : lreads_same s1 s2 -> line_at s1 t = line_at s2 t.
  Proof.
    intros [H1 [H2 H3]]. unfold line_at. rewrite H1. f_equal.
    - destruct (l_machine s1) as [p|], (l_machine s2) as [q|]; cbn in H3; try discriminate; [|reflexivity].
      injection H3 as -> ->. reflexivity.
    - apply (map_via (fun g => (g_rated g, g_status g)) (fun x => {| e_rated := fst x; e_on := nth t (snd x) false |}));
        [reflexivity|exact H2].
  Qed.

  Theorem lbalance_reads s1 s2 : lreads_same s1 s2 -> lobs (lbalance to_elec s1) = lobs (lbalance to_elec s2).
  Proof.
    intros H. pose proof H as [H1 [H2 H3]].
    assert (N : lpoints s1 = lpoints s2) by (unfold lpoints; rewrite H1; reflexivity).
    assert (A : forall t, line_at s1 t = line_at s2 t) by (intros; apply lreads_line_at, H).
    unfold lobs. rewrite !lbalance_engs, !lbalance_machine. f_equal.
    - rewrite !map_map.
      assert (B : forall g, bal_eng s1 g = bal_eng s2 g).
      { intros g. unfold bal_eng. rewrite N. f_equal; apply map_ext; intros t; rewrite A; reflexivity. }
      rewrite (map_ext _ (fun g => (g_pout (bal_eng s2 g), g_status (bal_eng s2 g))) (fun g => f_equal (fun b => (g_pout b, g_status b)) (B g))).
      apply (map_via (fun g => (g_rated g, g_status g))
               (fun x => (map (fun t => engine_out (line_at s2 t) {| e_rated := fst x; e_on := nth t (snd x) false |}) (seq 0 (lpoints s2)),
                          map (fun t => status_after (line_at s2 t) {| e_rated := fst x; e_on := nth t (snd x) false |}) (seq 0 (lpoints s2)))));
        [|exact H2].
      intros g. unfold bal_eng. cbn [g_pout g_status fst snd]. reflexivity.
    - destruct (l_machine s1) as [p|], (l_machine s2) as [q|]; cbn in H3; try discriminate; [|reflexivity].
      cbn zeta. cbn [p_shaft p_elec]. rewrite N. f_equal. f_equal; [|f_equal]; apply map_ext; intros t; rewrite A; reflexivity.
  Qed.

  (* ---- a complete supply on a shaft line ---- *)
  Definition with_lds (l : list (list Q)) (s : lstate) : lstate := {| l_lds := l; l_machine := l_machine s; l_engs := l_engs s |}.
  Definition with_engs (l : list meng) (s : lstate) : lstate := {| l_lds := l_lds s; l_machine := l_machine s; l_engs := l |}.
  Definition set_gstatus (l : list bool) (g : meng) : meng := {| g_rated := g_rated g; g_status := l; g_pout := g_pout g |}.
  Fixpoint set_all_status (ls : list (list bool)) (gs : list meng) : list meng :=
    match ls, gs with l :: ls', g :: gs' => set_gstatus l g :: set_all_status ls' gs' | _, _ => gs end.

  Lemma lrun_app s a b : lrun to_elec s (a ++ b) = lrun to_elec (lrun to_elec s a) b.
  Proof. unfold lrun. apply fold_left_app. Qed.

  Lemma lrun_cons s o r : lrun to_elec s (o :: r) = lrun to_elec (lstep to_elec s o) r.
  Proof. reflexivity. Qed.

  Lemma lrun_loads ls : forall pre old s, l_lds s = pre ++ old -> length ls = length old ->
    lrun to_elec s (lsupply_loads (length pre) ls) = with_lds (pre ++ ls) s.
  Proof.
    induction ls as [|l ls IH]; intros pre old s H L.
    - destruct old; [|discriminate]. cbn. unfold with_lds. rewrite <- H. destruct s; reflexivity.
    - destruct old as [|o old]; [discriminate|]. cbn [lsupply_loads]. rewrite lrun_cons. cbn [lstep].
      rewrite H, (update_app (fun _ => l) pre o old).
      replace (S (length pre)) with (length (pre ++ [l])) by (rewrite app_length; cbn; lia).
      rewrite (IH (pre ++ [l]) old); [|cbn; rewrite <- app_assoc; reflexivity|cbn in L; lia].
      unfold with_lds. cbn. rewrite <- app_assoc. reflexivity.
  Qed.

  Lemma lrun_status ls : forall pre old s, l_engs s = pre ++ old -> length ls = length old ->
    lrun to_elec s (lsupply_status (length pre) ls) = with_engs (pre ++ set_all_status ls old) s.
  Proof.
    induction ls as [|l ls IH]; intros pre old s H L.
    - destruct old; [|discriminate]. cbn. unfold with_engs. rewrite <- H. destruct s; reflexivity.
    - destruct old as [|o old]; [discriminate|]. cbn [lsupply_status]. rewrite lrun_cons. cbn [lstep].
      rewrite H. fold (set_gstatus l). rewrite (update_app (set_gstatus l) pre o old).
      replace (S (length pre)) with (length (pre ++ [set_gstatus l o])) by (rewrite app_length; cbn; lia).
      rewrite (IH (pre ++ [set_gstatus l o]) old); [|cbn; rewrite <- app_assoc; reflexivity|cbn in L; lia].
      unfold with_engs. cbn. rewrite <- app_assoc. reflexivity.
  Qed.

  Lemma set_all_status_reads ls : forall g1 g2, map g_rated g1 = map g_rated g2 -> length ls = length g1 ->
    map (fun g => (g_rated g, g_status g)) (set_all_status ls g1) = map (fun g => (g_rated g, g_status g)) (set_all_status ls g2).
  Proof.
    induction ls as [|l ls IH]; intros [|a g1] [|b g2] H L; try discriminate; try reflexivity.
    cbn in H. injection H as H0 H. cbn. rewrite H0. f_equal. apply IH; [exact H|cbn in L; lia].
  Qed.

  (* HISTORY-FREE (shaft line): whatever happened to two objects of the same line before, a complete supply --
     every load, every engine status series, the PTI/PTO's shaft power and full-PTI flags -- followed by a
     balance gives the same observation *)
  Theorem l_history_free s1 s2 h1 h2 loads sts shaft full :
    same_lplant (lrun to_elec s1 h1) (lrun to_elec s2 h2) ->
    length loads = length (l_lds (lrun to_elec s1 h1)) -> length sts = length (l_engs (lrun to_elec s1 h1)) ->
    lobs (lrun to_elec (lrun to_elec s1 h1) (lsupply loads sts shaft full ++ [LBalance]))
    = lobs (lrun to_elec (lrun to_elec s2 h2) (lsupply loads sts shaft full ++ [LBalance])).
  Proof.
    set (a := lrun to_elec s1 h1). set (b := lrun to_elec s2 h2). intros [HL [HR HM]] L1 L2.
    assert (L2' : length sts = length (l_engs b)).
    { rewrite L2, <- (map_length g_rated (l_engs a)), HR, map_length. reflexivity. }
    unfold lsupply. rewrite !lrun_app.
    pose proof (lrun_loads loads [] (l_lds a) a eq_refl L1) as X1. cbn [length app] in X1.
    assert (L1' : length loads = length (l_lds b)) by congruence.
    pose proof (lrun_loads loads [] (l_lds b) b eq_refl L1') as X2. cbn [length app] in X2.
    rewrite X1, X2.
    pose proof (lrun_status sts [] (l_engs a) (with_lds loads a) eq_refl L2) as Y1. cbn [length app] in Y1.
    pose proof (lrun_status sts [] (l_engs b) (with_lds loads b) eq_refl L2') as Y2. cbn [length app] in Y2.
    rewrite Y1, Y2.
    cbn [lrun fold_left lstep app]. apply lbalance_reads. unfold lreads_same. cbn.
    split; [reflexivity|]. split; [apply set_all_status_reads; assumption|].
    destruct (l_machine a) as [p|], (l_machine b) as [q|]; cbn; try reflexivity.
    - destruct HM as [_ HM]. discriminate (HM eq_refl).
    - destruct HM as [HM _]. discriminate (HM eq_refl).
  Qed.
End L.
