(* Proofs/ResultProofs.v *)
From Coq Require Import QArith List Bool Arith Lia Lqa.
From Feems Require Import Base.Num Model.FuelRecord Proofs.FuelRecordProofs Model.Result.
Import ListNotations.
Open Scope Q_scope.

Lemma lookup_app k a b : lookup_s k (a ++ b) = match lookup_s k a with Some v => Some v | None => lookup_s k b end.
Proof. induction a as [|[k' v] a IH]; cbn; [reflexivity|]. destruct (Nat.eqb k' k); [reflexivity|exact IH]. Qed.

Lemma lookup_map_left k (a b : list (nat * Q)) :
  lookup_s k (map (fun e => (fst e, snd e + getd (fst e) b)) a)
  = match lookup_s k a with Some v => Some (v + getd k b) | None => None end.
Proof.
  induction a as [|[k' v] a IH]; cbn; [reflexivity|].
  destruct (Nat.eqb_spec k' k) as [->|Hne]; [reflexivity|exact IH].
Qed.

Lemma lookup_map_right k (a b : list (nat * Q)) : lookup_s k a = None ->
  lookup_s k (map (fun e => (fst e, 0 + snd e))
                  (filter (fun e => match lookup_s (fst e) a with Some _ => false | None => true end) b))
  = match lookup_s k b with Some v => Some (0 + v) | None => None end.
Proof.
  intros Ha. induction b as [|[k' v] b IH]; cbn; [reflexivity|].
  destruct (Nat.eqb_spec k' k) as [->|Hne].
  - rewrite Ha. cbn. rewrite Nat.eqb_refl. reflexivity.
  - destruct (lookup_s k' a); cbn; [exact IH|]. destruct (Nat.eqb_spec k' k); [contradiction|exact IH].
Qed.

(* every species present in either operand is added; absent reads as zero *)
Lemma merge_species_get k a b : getd k (merge_species a b) == getd k a + getd k b.
Proof.
  unfold getd, merge_species. rewrite lookup_app, lookup_map_left.
  destruct (lookup_s k a) as [v|] eqn:Ea; [reflexivity|].
  rewrite (lookup_map_right k a b Ea). destruct (lookup_s k b); ring.
Qed.

Lemma species_of_merge k a b :
  species_of k (opt_merge merge_species a b) == species_of k a + species_of k b.
Proof.
  destruct a as [a|], b as [b|]; cbn [opt_merge species_of]; try ring.
  apply merge_species_get.
Qed.

(* a key is present in the merged map iff it is present in either operand *)
Lemma merge_species_keys k a b :
  lookup_s k (merge_species a b) <> None <-> (lookup_s k a <> None \/ lookup_s k b <> None).
Proof.
  unfold merge_species. rewrite lookup_app, lookup_map_left.
  destruct (lookup_s k a) as [v|] eqn:Ea.
  - split; [intros _; left; discriminate|intros _; discriminate].
  - rewrite (lookup_map_right k a b Ea). destruct (lookup_s k b) as [w|].
    + split; [intros _; right; discriminate|intros _; discriminate].
    + split; [intros H; contradiction|intros [H|H]; contradiction].
Qed.

Lemma vadd_nth a b i : (i < length a)%nat -> length a = length b ->
  nth i (vadd a b) 0 == nth i a 0 + nth i b 0.
Proof.
  revert b i; induction a as [|x a IH]; intros [|y b] i Hi Hl; cbn in *; try lia.
  destruct i as [|i]; [reflexivity|]. apply IH; lia.
Qed.
Lemma vadd_length a b : length a = length b -> length (vadd a b) = length a.
Proof. revert b; induction a as [|x a IH]; intros [|y b] H; cbn in *; try lia. f_equal. apply IH. lia. Qed.

Definition veq (a b : list Q) : Prop := length a = length b /\ forall i, nth i a 0 == nth i b 0.
Lemma vadd_assoc a b c : veq (vadd (vadd a b) c) (vadd a (vadd b c)).
Proof.
  revert b c; induction a as [|x a IH]; intros [|y b] [|z c]; cbn; try (split; [reflexivity|intros i; destruct i; reflexivity]).
  destruct (IH b c) as [L E]. split; [cbn; f_equal; exact L|]. intros [|i]; cbn; [ring|apply E].
Qed.
Lemma vadd_zero_l n a : length a = n -> veq (vadd (repeat 0 n) a) a.
Proof.
  revert a; induction n as [|n IH]; intros [|x a] H; cbn in *; try lia; try (split; [reflexivity|intros [|i]; reflexivity]).
  destruct (IH a ltac:(lia)) as [L E]. split; [cbn; f_equal; exact L|]. intros [|i]; cbn; [ring|apply E].
Qed.
Lemma vadd_zero_r n a : length a = n -> veq (vadd a (repeat 0 n)) a.
Proof.
  revert a; induction n as [|n IH]; intros [|x a] H; cbn in *; try lia; try (split; [reflexivity|intros [|i]; reflexivity]).
  destruct (IH a ltac:(lia)) as [L E]. split; [cbn; f_equal; exact L|]. intros [|i]; cbn; [ring|apply E].
Qed.

(* equivalence of results: every figure equal (fuel per kind, species with absent = 0) *)
Definition opt_eq (a b : option Q) : Prop :=
  match a, b with None, None => True | Some x, Some y => x == y | _, _ => False end.
Definition res_eq (a b : res) : Prop :=
  opt_eq (r_duration a) (r_duration b) /\ opt_eq (r_load a) (r_load b) /\
  veq (r_scalars a) (r_scalars b) /\ (forall k, species_of k (r_species a) == species_of k (r_species b)) /\
  req (r_fuel a) (r_fuel b) /\ veq (r_co2 a) (r_co2 b) /\ r_detail a = r_detail b.

Lemma opt_merge_app_assoc (a b c : option (list nat)) :
  opt_merge (@app nat) (opt_merge (@app nat) a b) c = opt_merge (@app nat) a (opt_merge (@app nat) b c).
Proof. destruct a, b, c; cbn; try reflexivity. rewrite app_assoc. reflexivity. Qed.

Lemma qmaxq_spec a b : (a <= b /\ qmaxq a b = b) \/ (b < a /\ qmaxq a b = a).
Proof.
  unfold qmaxq. destruct (Qle_bool a b) eqn:E.
  - left. split; [apply Qle_bool_iff, E|reflexivity].
  - right. split; [|reflexivity]. destruct (Qlt_le_dec b a) as [L|L]; [exact L|].
    apply Qle_bool_iff in L. congruence.
Qed.
Lemma qmaxq_assoc a b c : qmaxq (qmaxq a b) c == qmaxq a (qmaxq b c).
Proof.
  repeat match goal with
         | |- context [qmaxq ?x ?y] =>
             match x with context [qmaxq _ _] => fail 1 | _ => idtac end;
             match y with context [qmaxq _ _] => fail 1 | _ => idtac end;
             let H := fresh in let E := fresh in
             destruct (qmaxq_spec x y) as [[H E]|[H E]]; rewrite E in *; clear E
         end; lra.
Qed.

(* ---- what a defined merge contains ---- *)
Theorem merge_adds fz a b r : merge fz a b = Merged r ->
  r_scalars r = vadd (r_scalars a) (r_scalars b) /\
  (forall k, mass_of k (r_fuel r) == mass_of k (r_fuel a) + mass_of k (r_fuel b)) /\
  (forall k, species_of k (r_species r) == species_of k (r_species a) + species_of k (r_species b)) /\
  r_co2 r = vadd (r_co2 a) (r_co2 b) /\
  r_detail r = opt_merge (@app nat) (r_detail a) (r_detail b).
Proof.
  unfold merge. intros H.
  destruct (match r_duration a, r_duration b with None, d => Some d | d, None => Some d
            | Some da, Some db => if fz then (if Qeq_bool da db then Some (Some da) else None) else Some (Some (da + db)) end) as [d|]; [|discriminate].
  match type of H with match ?L with _ => _ end = _ => destruct L as [l|]; [|discriminate] end.
  inversion H; subst; cbn. repeat split; try reflexivity.
  - intros k. apply add_mass_of.
  - intros k. apply species_of_merge.
Qed.

Ltac qb :=
  repeat match goal with
         | H : Qeq_bool _ _ = true |- _ => apply Qeq_bool_eq in H
         | H : Qeq_bool _ _ = false |- _ => apply Qeq_bool_neq in H
         | H : Some _ = Some _ |- _ => inversion H; clear H; subst
         | H : Merged _ = Merged _ |- _ => inversion H; clear H; subst
         end.

(* durations: same-period merge keeps the common duration, consecutive-period merge adds them *)
Theorem merge_duration fz a b r : merge fz a b = Merged r ->
  match r_duration a, r_duration b with
  | None, d => r_duration r = d
  | d, None => r_duration r = d
  | Some da, Some db => if fz then da == db /\ r_duration r = Some da else r_duration r = Some (da + db)
  end.
Proof.
  unfold merge. intros H. destruct (r_duration a) as [da|], (r_duration b) as [db|], fz;
    try destruct (Qeq_bool da db) eqn:E; try discriminate;
    match type of H with match ?L with _ => _ end = _ => destruct L as [l|]; [|discriminate] end;
    inversion H; subst; cbn; auto. split; [apply Qeq_bool_eq, E|reflexivity].
Qed.

(* generator load: larger one for a same-period merge, time-weighted for consecutive periods *)
Theorem merge_load fz a b r la lb : merge fz a b = Merged r -> r_load a = Some la -> r_load b = Some lb ->
  if fz then r_load r = Some (qmaxq la lb)
  else match r_duration a, r_duration b with
       | Some da, Some db => r_load r = Some ((la * da + lb * db) / (da + db)) /\ ~ da + db == 0
       | None, _ => r_load r = Some lb
       | _, None => r_load r = Some la
       end.
Proof.
  unfold merge. intros H Ha Hb. rewrite Ha, Hb in H.
  destruct fz, (r_duration a) as [da|], (r_duration b) as [db|];
    try destruct (Qeq_bool da db) eqn:E; try discriminate; try (inversion H; subst; reflexivity).
  all: unfold qzero in H; destruct (Qeq_bool (da + db) 0) eqn:Z; [discriminate|];
    inversion H; subst; cbn; split; [reflexivity|apply Qeq_bool_neq, Z].
Qed.

(* ---- associativity ---- *)
Section Assoc.
  Variables (fz : bool) (a b c ab bc l r : res).
  Hypothesis Hab : merge fz a b = Merged ab.
  Hypothesis Hl : merge fz ab c = Merged l.
  Hypothesis Hbc : merge fz b c = Merged bc.
  Hypothesis Hr : merge fz a bc = Merged r.

  Theorem merge_assoc_additive :
    veq (r_scalars l) (r_scalars r) /\ veq (r_co2 l) (r_co2 r) /\ req (r_fuel l) (r_fuel r) /\
    (forall k, species_of k (r_species l) == species_of k (r_species r)) /\ r_detail l = r_detail r.
  Proof.
    destruct (merge_adds _ _ _ _ Hab) as [A1 [A2 [A3 [A4 A5]]]].
    destruct (merge_adds _ _ _ _ Hl) as [L1 [L2 [L3 [L4 L5]]]].
    destruct (merge_adds _ _ _ _ Hbc) as [B1 [B2 [B3 [B4 B5]]]].
    destruct (merge_adds _ _ _ _ Hr) as [R1 [R2 [R3 [R4 R5]]]].
    rewrite L1, A1, R1, B1, L4, A4, R4, B4, L5, A5, R5, B5.
    split; [apply vadd_assoc|]. split; [apply vadd_assoc|]. split.
    - intros k. rewrite L2, A2, R2, B2. ring.
    - split; [intros k; rewrite L3, A3, R3, B3; ring|apply opt_merge_app_assoc].
  Qed.

  Theorem merge_assoc_duration : opt_eq (r_duration l) (r_duration r).
  Proof.
    pose proof (merge_duration _ _ _ _ Hab) as D1. pose proof (merge_duration _ _ _ _ Hl) as D2.
    pose proof (merge_duration _ _ _ _ Hbc) as D3. pose proof (merge_duration _ _ _ _ Hr) as D4.
    destruct (r_duration a) as [da|], (r_duration b) as [db|], (r_duration c) as [dc|], fz;
      repeat match goal with
             | H : _ /\ _ |- _ => destruct H
             | H : r_duration _ = _ |- _ => rewrite H in *; clear H
             end; cbn; try reflexivity; try lra; try tauto.
  Qed.
End Assoc.


Lemma merge_load_freeze a b r : merge true a b = Merged r -> r_load r = opt_merge qmaxq (r_load a) (r_load b).
Proof.
  unfold merge. intros H.
  destruct (r_duration a) as [da|], (r_duration b) as [db|]; try destruct (Qeq_bool da db); try discriminate;
    destruct (r_load a), (r_load b); inversion H; subst; reflexivity.
Qed.

Theorem merge_assoc_load_freeze a b c ab bc l r :
  merge true a b = Merged ab -> merge true ab c = Merged l ->
  merge true b c = Merged bc -> merge true a bc = Merged r -> opt_eq (r_load l) (r_load r).
Proof.
  intros Hab Hl Hbc Hr.
  rewrite (merge_load_freeze _ _ _ Hl), (merge_load_freeze _ _ _ Hab),
          (merge_load_freeze _ _ _ Hr), (merge_load_freeze _ _ _ Hbc).
  destruct (r_load a), (r_load b), (r_load c); cbn; try reflexivity. apply qmaxq_assoc.
Qed.

(* consecutive periods: associative when every operand carries a duration and a generator load *)
Theorem merge_assoc_load_extend a b c ab bc l r da db dc la lb lc :
  r_duration a = Some da -> r_duration b = Some db -> r_duration c = Some dc ->
  r_load a = Some la -> r_load b = Some lb -> r_load c = Some lc ->
  merge false a b = Merged ab -> merge false ab c = Merged l ->
  merge false b c = Merged bc -> merge false a bc = Merged r -> opt_eq (r_load l) (r_load r).
Proof.
  intros Da Db Dc La Lb Lc Hab Hl Hbc Hr.
  pose proof (merge_load _ _ _ _ _ _ Hab La Lb) as X1. rewrite Da, Db in X1. destruct X1 as [X1 N1].
  pose proof (merge_duration _ _ _ _ Hab) as Y1. rewrite Da, Db in Y1.
  pose proof (merge_load _ _ _ _ _ _ Hbc Lb Lc) as X2. rewrite Db, Dc in X2. destruct X2 as [X2 N2].
  pose proof (merge_duration _ _ _ _ Hbc) as Y2. rewrite Db, Dc in Y2.
  pose proof (merge_load _ _ _ _ _ _ Hl X1 Lc) as X3. rewrite Y1, Dc in X3. destruct X3 as [X3 N3].
  pose proof (merge_load _ _ _ _ _ _ Hr La X2) as X4. rewrite Da, Y2 in X4. destruct X4 as [X4 N4].
  rewrite X3, X4. cbn. field. repeat split; try assumption; lra.
Qed.

(* ---- the empty result is neutral ---- *)
Lemma opt_eq_refl x : opt_eq x x.
Proof. destruct x; cbn; [reflexivity|exact I]. Qed.

Theorem merge_empty_l fz n a : length (r_scalars a) = n -> length (r_co2 a) = 3%nat ->
  exists r, merge fz (empty_res n) a = Merged r /\ res_eq r a.
Proof.
  intros Hn Hc. unfold merge, empty_res. cbn [r_duration r_load r_scalars r_species r_fuel r_co2 r_detail].
  eexists; split; [reflexivity|]. unfold res_eq; cbn [r_duration r_load r_scalars r_species r_fuel r_co2 r_detail opt_merge].
  repeat split; try apply opt_eq_refl; try reflexivity.
  - apply (vadd_zero_l n); exact Hn.
  - apply (vadd_zero_l n); exact Hn.
  - apply (vadd_zero_l 3); exact Hc.
  - apply (vadd_zero_l 3); exact Hc.
Qed.

Theorem merge_empty_r fz n a : length (r_scalars a) = n -> length (r_co2 a) = 3%nat ->
  exists r, merge fz a (empty_res n) = Merged r /\ res_eq r a.
Proof.
  intros Hn Hc. unfold merge, empty_res. cbn [r_duration r_load r_scalars r_species r_fuel r_co2 r_detail].
  destruct (r_duration a) as [da|] eqn:Da, (r_load a) as [la|] eqn:La;
    (eexists; split; [reflexivity|]); unfold res_eq;
    cbn [r_duration r_load r_scalars r_species r_fuel r_co2 r_detail opt_merge];
    rewrite ?Da, ?La;
    (repeat split; try apply opt_eq_refl; try reflexivity;
     try (apply (vadd_zero_r n); exact Hn); try (apply (vadd_zero_r 3); exact Hc);
     try (intros k; apply add_empty_r);
     try (destruct (r_species a); reflexivity); try (destruct (r_detail a); cbn; rewrite ?app_nil_r; reflexivity)).
Qed.
