(* Proofs/ComponentProofs.v *)
From Coq Require Import QArith Qabs ZArith List Bool Lqa Lia.
From Feems Require Import Base.Num Base.Pchip Model.Component Model.Storage.
Import ListNotations.
Open Scope Q_scope.

Lemma qb_le a b : Qle_bool a b = true <-> a <= b.  Proof. apply Qle_bool_iff. Qed.
Lemma qb_gt a b : Qle_bool a b = false -> b < a.
Proof. intros H. destruct (Qlt_le_dec b a) as [L|L]; [exact L|]. apply Qle_bool_iff in L. congruence. Qed.

Lemma clip_bounds x : 1 # 100 <= clip x <= 1.
Proof.
  unfold clip, qmin, qmax.
  destruct (Qle_bool x (1 # 100)) eqn:E1.
  - change (Qle_bool (1 # 100) 1) with true. cbv iota. lra.
  - apply qb_gt in E1. destruct (Qle_bool x 1) eqn:E2; [apply qb_le in E2; lra|lra].
Qed.

Lemma clip_id x : 1 # 100 <= x <= 1 -> clip x == x.
Proof.
  intros [H1 H2]. unfold clip, qmin, qmax.
  destruct (Qle_bool x (1 # 100)) eqn:E1.
  - apply qb_le in E1. change (Qle_bool (1 # 100) 1) with true. cbv iota. lra.
  - destruct (Qle_bool x 1) eqn:E2; [reflexivity|]. apply qb_gt in E2. lra.
Qed.

Section Fwd.
  Variables (rated : Q) (f : Q -> Q).
  Let e (x : Q) := eff f (Qabs x / rated).

  Lemma eff_bounds l : 1 # 100 <= eff f l <= 1.
  Proof. apply clip_bounds. Qed.

  (* delivery = supply x efficiency, the efficiency is within [1 %, 100 %] *)
  Lemma fwd_ratio x : x == fwd rated f x * e x /\ 1 # 100 <= e x <= 1.
  Proof.
    split; [|apply eff_bounds]. unfold fwd, e. rewrite Qred_correct. pose proof (eff_bounds (Qabs x / rated)). field. lra.
  Qed.

  (* supply is never less than delivery in magnitude, and has the same sign *)
  Lemma fwd_no_gain x : Qabs x <= Qabs (fwd rated f x) /\ 0 <= x * fwd rated f x.
  Proof.
    destruct (fwd_ratio x) as [E B]. fold (e x) in *. set (s := fwd rated f x) in *. set (k := e x) in *.
    split.
    - rewrite E at 1. rewrite Qabs_Qmult. rewrite (Qabs_pos k) by lra.
      assert (0 <= Qabs s) by apply Qabs_nonneg.
      assert (0 <= Qabs s * (1 - k)) by (apply Qmult_le_0_compat; lra). lra.
    - rewrite E at 1. assert (X : s * k * s == k * (s * s)) by ring. rewrite X.
      apply Qmult_le_0_compat; [lra|]. destruct (Qlt_le_dec s 0).
      + assert (0 <= (- s) * (- s)) by (apply Qmult_le_0_compat; lra). lra.
      + apply Qmult_le_0_compat; lra.
  Qed.

  Lemma fwd_zero : fwd rated f 0 == 0.
  Proof. unfold fwd. rewrite Qred_correct. pose proof (eff_bounds (Qabs 0 / rated)). field. lra. Qed.
End Fwd.


(* ---- PCHIP passes through its knots, whatever the slopes ---- *)
Lemma hermite_left x0 y0 d0 x1 y1 d1 : hermite x0 y0 d0 x1 y1 d1 x0 == y0.
Proof. unfold hermite. ring. Qed.
Lemma hermite_right x0 y0 d0 x1 y1 d1 : ~ x1 - x0 == 0 -> hermite x0 y0 d0 x1 y1 d1 x1 == y1.
Proof. intros H. unfold hermite. field. exact H. Qed.

Inductive strictly_sorted : list (Q * Q) -> Prop :=
| ss1 p : strictly_sorted [p]
| ss2 p q r : fst p < fst q -> strictly_sorted (q :: r) -> strictly_sorted (p :: q :: r).

Lemma sorted_head_lt p q r z : strictly_sorted (p :: q :: r) -> In z (q :: r) -> fst p < fst z.
Proof.
  revert p q; induction r as [|s r IH]; intros p q H Hin.
  - destruct Hin as [<-|[]]. inversion H; assumption.
  - inversion H; subst. destruct Hin as [<-|Hin]; [assumption|].
    apply Qlt_trans with (fst q); [assumption|]. apply (IH q s); assumption.
Qed.

Lemma eval_aux_step x0 y0 x1 y1 p2 pr d0 d1 dr x :
  eval_aux ((x0, y0) :: (x1, y1) :: p2 :: pr) (d0 :: d1 :: dr) x
  = if Qle_bool x1 x then eval_aux ((x1, y1) :: p2 :: pr) (d1 :: dr) x else hermite x0 y0 d0 x1 y1 d1 x.
Proof. reflexivity. Qed.
Lemma eval_aux_last x0 y0 x1 y1 d0 d1 dr x :
  eval_aux [(x0, y0); (x1, y1)] (d0 :: d1 :: dr) x = hermite x0 y0 d0 x1 y1 d1 x.
Proof. reflexivity. Qed.

Theorem eval_at_knot pts ds p : strictly_sorted pts -> (2 <= length pts)%nat -> length ds = length pts ->
  In p pts -> eval_aux pts ds (fst p) == snd p.
Proof.
  revert ds; induction pts as [|[x0 y0] pts IH]; intros ds Hs Hl Hd Hin; [destruct Hin|].
  destruct pts as [|[x1 y1] pr]; [cbn in Hl; lia|].
  destruct ds as [|d0 [|d1 dr]]; try (cbn in Hd; lia).
  inversion Hs as [|a b c Hlt Hs']; subst. cbn [fst] in Hlt.
  destruct pr as [|p2 pr'].
  - (* last piece *)
    rewrite eval_aux_last.
    destruct Hin as [<-|[<-|[]]]; cbn [fst snd]; [apply hermite_left|apply hermite_right; lra].
  - rewrite eval_aux_step. destruct Hin as [<-|Hin]; cbn [fst snd].
    + assert (E : Qle_bool x1 x0 = false).
      { destruct (Qle_bool x1 x0) eqn:B; [|reflexivity]. apply Qle_bool_iff in B. lra. }
      rewrite E. apply hermite_left.
    + assert (E : Qle_bool x1 (fst p) = true).
      { apply Qle_bool_iff. destruct Hin as [<-|Hin']; [cbn; lra|].
        apply Qlt_le_weak. apply (sorted_head_lt (x1, y1) p2 pr' p Hs' Hin'). }
      rewrite E. apply IH; [exact Hs'|cbn; lia|cbn in *; lia|exact Hin].
Qed.

(* ---- storage ---- *)
Section Store.
  Variable s : store.
  Hypothesis Hc : 0 < eff_c s <= 1.
  Hypothesis Hd : 0 < eff_d s <= 1.

  Lemma qzero_false x : ~ x == 0 -> qzero x = false.
  Proof. intros H. unfold qzero. destruct (Qeq_bool x 0) eqn:B; [|reflexivity]. apply Qeq_bool_eq in B. contradiction. Qed.

  Theorem store_roundtrip p : terminal_from_cell s (cell_from_terminal s p) == p.
  Proof.
    unfold cell_from_terminal, terminal_from_cell.
    destruct (Qle_bool p 0) eqn:E.
    - apply qb_le in E. destruct (qzero p) eqn:Z.
      + rewrite (proj2 (qb_le p 0)) by exact E. rewrite Z. reflexivity.
      + unfold qzero in Z. apply Qeq_bool_neq in Z. assert (p < 0) by lra.
        assert (N : p / eff_d s < 0).
        { unfold Qdiv. assert (0 < / eff_d s) by (apply Qinv_lt_0_compat; lra).
          assert (0 < (- p) * / eff_d s) by (apply Qmult_lt_0_compat; lra). lra. }
        rewrite (proj2 (qb_le _ 0)) by lra. rewrite (qzero_false (p / eff_d s)) by lra. field. lra.
    - apply qb_gt in E. assert (P : 0 < p * eff_c s) by (apply Qmult_lt_0_compat; lra).
      destruct (Qle_bool (p * eff_c s) 0) eqn:B; [apply qb_le in B; lra|]. field. lra.
  Qed.

  (* what reaches the cell is never more than what enters at the terminal; what leaves the cell is
     never less than what is delivered at the terminal *)
  Theorem store_no_gain p : cell_from_terminal s p <= p.
  Proof.
    unfold cell_from_terminal. destruct (Qle_bool p 0) eqn:E.
    - apply qb_le in E. destruct (qzero p); [lra|].
      assert (1 <= / eff_d s).
      { assert (X : / eff_d s == 1 + (1 - eff_d s) * / eff_d s) by (field; lra).
        assert (0 <= (1 - eff_d s) * / eff_d s) by (apply Qmult_le_0_compat; [lra|apply Qlt_le_weak, Qinv_lt_0_compat; lra]). lra. }
      unfold Qdiv. assert (0 <= (- p) * (/ eff_d s - 1)) by (apply Qmult_le_0_compat; lra). lra.
    - apply qb_gt in E. assert (0 <= p * (1 - eff_c s)) by (apply Qmult_le_0_compat; lra). lra.
  Qed.
End Store.

(* energy credited = sum over the intervals; the last accumulated value is the total *)
Lemma running_last acc cell dt : length cell = length dt ->
  last (acc :: running acc cell dt) 0 == acc + energy_kj cell dt.
Proof.
  revert acc dt; induction cell as [|p ps IH]; intros acc [|d ds] H; cbn in *; try discriminate; [ring|].
  specialize (IH (acc + p * d) ds ltac:(congruence)).
  destruct (running (acc + p * d) ps ds) eqn:R; cbn in *; rewrite IH; ring.
Qed.
Theorem accumulated_last cell dt : length cell = length dt ->
  last (accumulated_kj cell dt) 0 == energy_kj cell dt /\ length (accumulated_kj cell dt) = S (length cell).
Proof.
  intros H. split.
  - unfold accumulated_kj. rewrite (running_last 0 cell dt H). ring.
  - unfold accumulated_kj. cbn. f_equal. revert dt H. generalize 0.
    induction cell as [|p ps IH]; intros a [|d ds] H; cbn in *; try discriminate; [reflexivity|].
    f_equal. apply IH. congruence.
Qed.

(* ---- the slope list has one entry per knot ---- *)
Lemma hs_length xs : length (hs xs) = (length xs - 1)%nat.
Proof.
  induction xs as [|a [|b r] IH]; cbn [hs length] in *; try reflexivity. rewrite IH. cbn. lia.
Qed.
Lemma ms_length pts : length (ms pts) = (length pts - 1)%nat.
Proof.
  induction pts as [|[x0 y0] [|[x1 y1] r] IH]; cbn [ms length] in *; try reflexivity. rewrite IH. cbn. lia.
Qed.
Lemma interiors_length h m : length h = length m -> length (interiors h m) = (length h - 1)%nat.
Proof.
  revert m; induction h as [|h0 [|h1 hr] IH]; intros [|m0 [|m1 mr]] H; cbn in *; try reflexivity; try lia.
  rewrite (IH (m1 :: mr)) by (cbn; lia). cbn. lia.
Qed.
Lemma derivs_length pts : (2 <= length pts)%nat -> length (derivs pts) = length pts.
Proof.
  intros H. unfold derivs.
  pose proof (hs_length (map fst pts)) as Hh. rewrite map_length in Hh. pose proof (ms_length pts) as Hm.
  remember (hs (map fst pts)) as h. remember (ms pts) as m.
  destruct h as [|h0 [|h1 hr]]; destruct m as [|m0 [|m1 mr]]; cbn [length] in *; try lia.
  assert (Lr : length (rev (h0 :: h1 :: hr)) = length (rev (m0 :: m1 :: mr))) by (rewrite !rev_length; cbn; lia).
  destruct (rev (h0 :: h1 :: hr)) as [|a [|b c]] eqn:R1; destruct (rev (m0 :: m1 :: mr)) as [|a' [|b' c']] eqn:R2;
      try (apply (f_equal (@length Q)) in R1; rewrite rev_length in R1; cbn in R1; lia);
      try (apply (f_equal (@length Q)) in R2; rewrite rev_length in R2; cbn in R2; lia).
  cbn [length]. rewrite app_length, interiors_length by (cbn; lia). cbn. lia.
Qed.

Lemma increasing_sorted (l : list (Q * Q)) : (1 <= length l)%nat -> increasing (map fst l) = true -> strictly_sorted l.
Proof.
  induction l as [|p [|q r] IH]; intros Hl H; [cbn in Hl; lia|constructor|].
  cbn [map increasing] in H. apply andb_true_iff in H as [H1 H2]. apply andb_true_iff in H1 as [H1 H3].
  constructor.
  - apply Qle_bool_iff in H1. apply negb_true_iff in H3. apply Qeq_bool_neq in H3. lra.
  - apply IH; [cbn; lia|exact H2].
Qed.

(* PCHIP with SciPy's slopes passes through every knot *)
Theorem pchip_at_knot pts p : strictly_sorted pts -> (2 <= length pts)%nat -> In p pts -> pchip pts (fst p) == snd p.
Proof.
  intros Hs Hl Hin. unfold pchip. rewrite Qred_correct.
  apply eval_at_knot; [exact Hs|exact Hl|rewrite map_length; apply derivs_length; exact Hl|exact Hin].
Qed.

(* the interpolated inverse is exact at the 201 table points *)
Theorem inverse_exact_at_table rated f k : accepted rated f = true -> (k <= 200)%nat ->
  inv rated f (fwd rated f (table_out rated k)) == table_out rated k.
Proof.
  intros Ha Hk. unfold accepted in Ha. apply andb_true_iff in Ha as [_ Hinc].
  unfold inv, inv_with. rewrite Qred_correct.
  assert (Hl : length (table rated f) = 201%nat) by (unfold table; rewrite map_length, seq_length; reflexivity).
  assert (Hs : strictly_sorted (table rated f)) by (apply increasing_sorted; [rewrite Hl; lia|exact Hinc]).
  change (fwd rated f (table_out rated k)) with (fst (fwd rated f (table_out rated k), table_out rated k)).
  change (table_out rated k) with (snd (fwd rated f (table_out rated k), table_out rated k)) at 3.
  apply eval_at_knot; [exact Hs|rewrite Hl; lia| |].
  - unfold slopes. rewrite map_length, derivs_length; [reflexivity|rewrite Hl; lia].
  - unfold table. apply in_map_iff. exists k. split; [reflexivity|apply in_seq; lia].
Qed.

(* serial drive train: at the eleven grid loads the tabulated curve IS the product of the stage
   efficiencies, every stage at its own load *)
Lemma serial_grid_sorted g : strictly_sorted (map (fun l => (l, g l)) serial_grid).
Proof. unfold serial_grid. cbn [seq map]. repeat (constructor; [cbn [fst]; reflexivity|]). constructor. Qed.

Theorem serial_at_grid stages l : In l serial_grid -> serial_curve stages l == serial_eff_at stages l.
Proof.
  intros Hin. unfold serial_curve, serial_points.
  change l with (fst (l, serial_eff_at stages l)) at 1.
  change (serial_eff_at stages l) with (snd (l, serial_eff_at stages l)) at 2.
  apply pchip_at_knot; [apply serial_grid_sorted|rewrite map_length; cbn; lia|].
  apply in_map_iff. exists l. split; [reflexivity|exact Hin].
Qed.

(* what is credited to the store over a series never exceeds the terminal energy of the series *)
Theorem energy_never_gains s ps dt : 0 < eff_c s <= 1 -> 0 < eff_d s <= 1 ->
  length ps = length dt -> (forall d, In d dt -> 0 <= d) ->
  energy_kj (map (cell_from_terminal s) ps) dt <= energy_kj ps dt.
Proof.
  intros Hc Hd. revert dt; induction ps as [|p ps IH]; intros [|d ds] Hl Hpos; cbn in *; try discriminate; try lra.
  assert (0 <= d) by (apply Hpos; left; reflexivity).
  pose proof (store_no_gain s Hc Hd p) as Hp.
  assert (IH' : energy_kj (map (cell_from_terminal s) ps) ds <= energy_kj ps ds)
    by (apply IH; [congruence|intros x Hx; apply Hpos; right; exact Hx]).
  assert (0 <= (p - cell_from_terminal s p) * d) by (apply Qmult_le_0_compat; lra). lra.
Qed.
