(* coq/gen/C13_gen.v — the enums on the two sides of the system description, AS THEY ARE IN THE CODE NOW
   (regenerated into build/gen/Gen_enums.v).  The converters move fuel type, fuel origin, engine cycle,
   emission species, component type and power type BY NUMBER (.value / Enum(number)) and the NOx method BY
   NAME; the model (Model/ProtoSys.v) moves numbers.  This theorem is what makes "the same number" mean
   "the same member". *)
From Coq Require Import String List Bool Arith.
From Feems Require Import Model.ProtoSys.
From FeemsGen Require Import Gen_enums.
Import ListNotations.
Open Scope string_scope.

Definition is_none (s : string) : bool := String.prefix "NONE" s.
Definition name_eq (a b : string) : bool := String.eqb a b || (is_none a && is_none b).
Fixpoint by_number (v : nat) (l : list (string * nat)) : option string :=
  match l with [] => None | (n, w) :: t => if Nat.eqb v w then Some n else by_number v t end.
Fixpoint by_name (n : string) (l : list (string * nat)) : option nat :=
  match l with [] => None | (m, w) :: t => if String.eqb n m then Some w else by_name n t end.

(* every FEEMS member has a protobuf member of the same number and the same name *)
Definition same_numbering (upto : nat) (feems pb : list (string * nat)) : bool :=
  forallb (fun e => Nat.ltb upto (snd e) || match by_number (snd e) pb with Some n => name_eq (fst e) n | None => false end) feems.
Definition pairs_eqb (a b : list (string * nat)) : bool :=
  Nat.eqb (List.length a) (List.length b) && forallb (fun p => String.eqb (fst (fst p)) (fst (snd p)) && Nat.eqb (snd (fst p)) (snd (snd p))) (combine a b).
(* the members are numbered lo, lo+1, ..., hi: the model's range test is membership *)
Definition numbered (lo hi : nat) (l : list (string * nat)) : bool :=
  forallb (fun p => Nat.eqb (fst p) (snd p)) (combine (map snd l) (seq lo (S hi - lo))) && Nat.eqb (List.length l) (S hi - lo).
Definition has (n : string) (v : nat) (l : list (string * nat)) : bool :=
  match by_name n l with Some w => Nat.eqb v w | None => false end.

Definition enum_numbering : bool :=
  same_numbering 100 feems_TypeFuel pb_FuelType && same_numbering 100 feems_FuelOrigin pb_FuelOrigin &&
  same_numbering 100 feems_EngineCycleType pb_EngineCycleType && same_numbering 100 feems_EmissionType pb_EmissionType &&
  same_numbering 100 feems_TypeComponent pb_ComponentType &&
  same_numbering 4 feems_TypePower pb_PowerType &&          (* POWER_TRANSMISSION (5) never is a subsystem's power type *)
  (* the compiled descriptors are those of the .proto text *)
  pairs_eqb pb_FuelType text_FuelType && pairs_eqb pb_FuelOrigin text_FuelOrigin && pairs_eqb pb_EngineCycleType text_EngineCycleType &&
  pairs_eqb pb_EmissionType text_EmissionType && pairs_eqb pb_ComponentType text_ComponentType && pairs_eqb pb_PowerType text_PowerType &&
  pairs_eqb pb_NOx text_NOx &&
  (* ranges the model's decoder tests *)
  numbered 0 MAX_FUEL feems_TypeFuel && numbered 0 MAX_ORIGIN feems_FuelOrigin && numbered 0 MAX_CYCLE feems_EngineCycleType &&
  numbered MIN_EMISSION MAX_EMISSION feems_EmissionType && numbered 0 MAX_CTYPE feems_TypeComponent &&
  numbered 0 MAX_PTYPE feems_TypePower && numbered 0 MAX_NOX pb_NOx &&
  (* the NOx method travels by name: the two name sets coincide *)
  forallb (fun n => match by_name n pb_NOx with Some _ => true | None => false end) feems_nox_names &&
  forallb (fun p => existsb (String.eqb (fst p)) feems_nox_names) pb_NOx &&
  (* the component and power types the converters branch on *)
  has "MAIN_ENGINE" T_MAIN_ENGINE feems_TypeComponent && has "GENERATOR" T_GENERATOR feems_TypeComponent &&
  has "PROPULSION_DRIVE" T_PROPULSION_DRIVE feems_TypeComponent && has "OTHER_LOAD" T_OTHER_LOAD feems_TypeComponent &&
  has "PTI_PTO_SYSTEM" T_PTI_PTO_SYSTEM feems_TypeComponent && has "BATTERY_SYSTEM" T_BATTERY_SYSTEM feems_TypeComponent &&
  has "FUEL_CELL_SYSTEM" T_FUEL_CELL_SYSTEM feems_TypeComponent && has "MAIN_ENGINE_WITH_GEARBOX" T_MAIN_ENGINE_GB feems_TypeComponent &&
  has "GENSET" T_GENSET feems_TypeComponent && has "PROPELLER_LOAD" T_PROPELLER_LOAD feems_TypeComponent &&
  has "BATTERY" T_BATTERY feems_TypeComponent && has "SUPERCAPACITOR" T_SUPERCAPACITOR feems_TypeComponent &&
  has "SUPERCAPACITOR_SYSTEM" T_SUPERCAPACITOR_SYSTEM feems_TypeComponent && has "COGES" T_COGES feems_TypeComponent &&
  has "POWER_SOURCE" P_SOURCE feems_TypePower && has "POWER_CONSUMER" P_CONSUMER feems_TypePower &&
  has "PTI_PTO" P_PTI_PTO feems_TypePower && has "ENERGY_STORAGE" P_STORAGE feems_TypePower.

Theorem C13_enum_numbering : enum_numbering = true.
Proof. vm_compute. reflexivity. Qed.
Print Assumptions C13_enum_numbering.
