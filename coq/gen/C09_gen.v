(* coq/gen/C09_gen.v — the NOx constants AS THEY ARE IN feems.constant NOW (regenerated into
   build/gen/Gen_constants.v on every run) are the Regulation 13 constants the theorems of
   Props/C09.v are stated for. *)
From Coq Require Import QArith List Bool.
From FeemsGen Require Import Gen_constants.
Import ListNotations.
Open Scope Q_scope.

Fixpoint qlist_eqb (a b : list Q) : bool :=
  match a, b with [], [] => true | x :: a', y :: b' => Qeq_bool x y && qlist_eqb a' b' | _, _ => false end.

Theorem C09_constants :
  qlist_eqb nox_slow [17; 144 # 10; 34 # 10] && qlist_eqb nox_factor [45; 44; 9] &&
  qlist_eqb nox_exponent [-(2 # 10); -(23 # 100); -(2 # 10)] && Qeq_bool nox_slow_max_rpm 130 = true.
Proof. vm_compute. reflexivity. Qed.
Print Assumptions C09_constants.
