(* coq/gen/C08_gen.v — theorems of C08 over the tables AS THE CODE LOADS THEM NOW (regenerated into
   build/gen/Gen_fuel_tables.v on every run).  Finite domains: every row x every class x every origin;
   the bound is the table itself.  Proofs are by vm_compute. *)
From Coq Require Import QArith String List Bool Arith.
From Feems Require Import Base.Num Model.Ghg.
From FeemsGen Require Import Gen_fuel_tables.
Import ListNotations.
Open Scope Q_scope.

Definition oq_eqb (a b : option Q) : bool :=
  match a, b with Some x, Some y => Qeq_bool x y | None, None => true | _, _ => false end.
Definition is_some {A} (x : option A) : bool := match x with Some _ => true | None => false end.

Definition all_types : list nat := map fst type_names.
Definition all_origins : list nat := map fst origin_names.
Definition all_classes : list nat := map fst class_names.
Definition gas_classes : list nat := filter (is_gas_class tables) all_classes.
Definition fossil : nat := 1%nat.

(* the GWP100 weights the property names *)
Theorem C08_gwp : Qeq_bool gwp_ch4 25 && Qeq_bool gwp_n2o 298 && Qeq_bool gwp_co2 1 = true.
Proof. vm_compute. reflexivity. Qed.

(* FuelEU: the methane slip is that of the engine class and does not depend on the origin of the gas:
   for every origin that lists natural gas, every gas-engine class has a row, and its slip equals the
   slip of that class for fossil gas *)
Definition slip_class_property : bool :=
  forallb (fun o =>
    match rows_for tables EU natural_gas_type o, rows_for tables EU natural_gas_type fossil with
    | None, _ => true
    | Some l, Some l0 =>
        forallb (fun c => match find_class tables c l, find_class tables c l0 with
                          | Some r, Some r0 => oq_eqb (c_slip r) (c_slip r0) && is_some (c_slip r)
                          | _, _ => false end) gas_classes
    | Some _, None => false
    end) all_origins.
Theorem C08_slip_is_class_property : slip_class_property && negb (Nat.eqb (length gas_classes) 0) = true.
Proof. vm_compute. reflexivity. Qed.

(* the slip applies to natural gas only: every other fuel has slip 0 in every row *)
Theorem C08_slip_only_for_gas :
  forallb (fun r => String.eqb (pathway r) "LNG" || oq_eqb (c_slip r) (Some 0) || negb (is_some (c_slip r))) eu_table = true.
Proof. vm_compute. reflexivity. Qed.

(* IMO: only the tabulated CO2 factor applies (the other factors and the slip are zero in every row) *)
Theorem C08_imo_co2_only :
  forallb (fun r => oq_eqb (ttw_of tables r) (cf_co2 r) && is_some (cf_co2 r)) imo_table = true.
Proof. vm_compute. reflexivity. Qed.

(* no missing factor: for every (fuel type, origin) the enums offer and a table lists, the heating
   value, the upstream factor and every tank-to-wake factor are present, for every class listed --
   except the rows recorded as known finding F-C08-1 (FuelEU lists RFNBO LPG without any Cf factor,
   the code then reports NaN): any OTHER incomplete row breaks this theorem. *)
Definition known_incomplete : list (string * string) :=
  [("LPG (Propane)", "RFNBO"); ("LPG (Butane)", "RFNBO")]%string.
Definition incomplete_rows (s : spec) : list (string * string) :=
  flat_map (fun ty => flat_map (fun o =>
    match rows_for tables s ty o with
    | None => []
    | Some l => map (fun r => (pathway r, fclass r))
                    (filter (fun r => negb (is_some (lcv r) && is_some (wtt r) && is_some (ttw_of tables r))) l)
    end) all_origins) all_types.
Definition known_b (x : string * string) : bool :=
  existsb (fun k => String.eqb (fst k) (fst x) && String.eqb (snd k) (snd x)) known_incomplete.
Theorem C08_no_missing_factor :
  forallb known_b (incomplete_rows EU) && forallb known_b (incomplete_rows IMO) = true.
Proof. vm_compute. reflexivity. Qed.
(* printed for the harness: the incomplete rows present now *)
Eval vm_compute in (app (incomplete_rows EU) (incomplete_rows IMO)).

(* other fuels in a gas engine use the generic engine factors: every non-gas fuel the FuelEU table
   lists has an "ALL ICEs" row; natural gas has a row for every class *)
Theorem C08_nongas_in_gas_engine :
  forallb (fun ty => forallb (fun o =>
    match rows_for tables EU ty o with
    | None => true
    | Some l => if Nat.eqb ty natural_gas_type then forallb (fun c => is_some (find_class tables c l)) gas_classes
                else is_some (find_class tables ice_class l)
    end) all_origins) all_types = true.
Proof. vm_compute. reflexivity. Qed.

Print Assumptions C08_slip_is_class_property.
Print Assumptions C08_imo_co2_only.
Print Assumptions C08_no_missing_factor.
Print Assumptions C08_nongas_in_gas_engine.
