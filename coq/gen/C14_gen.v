(* coq/gen/C14_gen.v — the names on both sides of the result export, AS THEY ARE IN THE CODE NOW
   (regenerated into build/gen/Gen_columns.v): dataclass fields of FEEMSResult, fields of the FeemsResult and
   ResultPerComponent messages (compiled descriptors), _COLUMN_NAMES, and the column lists of the
   switchboard and shaft-line detail tables. *)
From Coq Require Import String List Bool.
From Feems Require Import Model.ProtoResult.
From FeemsGen Require Import Gen_columns.
Import ListNotations.
Open Scope string_scope.

(* handled explicitly by the converter, or deliberately not exported *)
Definition special : list string :=
  ["detail_result"; "multi_fuel_consumption_total_kg"; "total_emission_kg"; "co2_emission_total_kg"; "load_ratio_genset"].

(* every other field of the result has a message field of the same name; the special ones have their
   explicit homes *)
Definition totals_have_a_home : bool :=
  forallb (fun f => smem f special || smem f feems_result_message_fields) result_dataclass_fields &&
  smem "multi_fuel_consumption_total_kg" feems_result_message_fields &&
  smem "co2_emission_total_kg" feems_result_message_fields && smem "nox_emission_total_kg" feems_result_message_fields &&
  smem "detailed_result" feems_result_message_fields && smem "duration_s" feems_result_message_fields.

(* every column of either detail table maps, through _COLUMN_NAMES, to a field of ResultPerComponent *)
Definition columns_mapped : bool :=
  forallb (fun c => match sassoc c column_names with
                    | Some f => smem f per_component_message_fields
                    | None => false end)
          (electric_detail_columns ++ mechanical_detail_columns)%list.

Theorem C14_columns_mapped : totals_have_a_home && columns_mapped = true.
Proof. vm_compute. reflexivity. Qed.
Print Assumptions C14_columns_mapped.
